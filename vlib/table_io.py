"""C19 (pcap header codecs), C21 (read chunk accounting), and the PcapPacket parts of C15/C16/C17."""
from .table import H, FMT_STUB


def harnesses():
    out = []
    # ---- pcap global header: every shorter length rejects, 24 / 28 decode
    for l in range(0, 29):
        q = l in (23, 24, 28)
        for prop in ("C19", "C16"):
            if prop == "C16" and not q:
                continue
            out.append(H(f"{prop.lower()}_ghdr_l{l}", prop, "quick" if q else "thorough", f"ghdr::<{l}>()", "pcap_ghdr",
                         f"{l} symbolic bytes", 26))
    out.append(H("c19_ghdr_new", "C19", "quick", "ghdr_new()", "pcap_ghdr_new", "magic: one of the two legacy values", 26))
    for l in range(0, 21):
        q = l in (15, 16, 20)
        for prop in ("C19", "C16"):
            if prop == "C16" and not q:
                continue
            out.append(H(f"{prop.lower()}_rhdr_l{l}", prop, "quick" if q else "thorough", f"rhdr::<{l}>()", "pcap_rhdr",
                         f"{l} symbolic bytes", 18))
    # ---- PcapPacket via H1
    for l, tier in ((0, "thorough"), (4, "quick"), (20, "thorough")):
        out.append(H(f"c16_pkt_dec_l{l}", "C16", tier, f"pkt::dec_ser::<{l}>()", "pkt_dec_ser",
                     f"16 header bytes + {l} captured bytes, 1 symbolic compare index", 18))
        out.append(H(f"c15_pkt_ser_l{l}", "C15", tier, f"pkt::dec_ser::<{l}>()", "pkt_dec_ser",
                     f"16 header bytes + {l} captured bytes, 1 symbolic compare index", 18))
    for k, n in enumerate(("sec", "usec", "caplen", "wirelen")):
        out.append(H(f"c17_pkt_set_{n}", "C17", "quick", f"pkt::set::<4>({k})",   # all four record-header setters are quick (fourth wave)
                     f"pkt_set_{n}", "16 header bytes + 4 captured bytes, assigned value any i64", 18))
    # ---- Pcap object via H4: global-header properties (C16) and their setters (C17)
    for ns, mn in ((False, "us"), (True, "ns")):
        out.append(H(f"c16_pcap_props_{mn}", "C16", "quick" if not ns else "thorough", f"pcapobj::dec({str(ns).lower()})", "pcap_props",
                     f"20 symbolic header bytes after the {mn} magic", 26))
    for k, (n, meth) in enumerate((("magic", "set_magic_number"), ("major", "set_version_major"), ("minor", "set_version_minor"),
                                   ("thiszone", "set_thiszone"), ("sigfigs", "set_sigfigs"), ("snaplen", "set_snaplen"),
                                   ("linktype", "set_linktype"))):
        for ns, mn in ((False, "us"), (True, "ns")):
            tier = "quick" if (n == "thiszone" and not ns) else "thorough"
            out.append(H(f"c17_pcap_set_{n}_{mn}", "C17", tier, f"pcapobj::set({k}, {str(ns).lower()}, |p, v| p.{meth}(v))",
                         f"pcap_set_{n}", f"20 symbolic header bytes after the {mn} magic, assigned value any i64, 1 symbolic compare index", 26))
    # ---- C21 (count of bytes returned / consumed; see pcapio.rs read_prefix for why not the values)
    for (b, buf, tier, to, req) in ((1, 0, "quick", 600, True), (2, 0, "quick", 600, True), (3, 0, "quick", 900, True),
                                    (4, 0, "thorough", 1800, False), (2, 2, "thorough", 1800, False)):
        out.append(H(f"c21_read_b{b}_buf{buf}", "C21", tier, f"read_prefix::<{b}>({buf})", "read_prefix",
                     f"content of symbolic length <= {b} with symbolic bytes, request n any usize (incl. usize::MAX), "
                     f"symbolic chunk size k (1 <= k <= min(buffer, remaining)) at every read() call"
                     + (f", through std BufReader(capacity {buf})" if buf else ""),
                     unwind=b + 3, timeout=to, required=req))
    return out
