"""Per-property description emitted into the evidence (functions encoded, bounds, assumptions) and the
end-to-end rendering of packet-layer counterexamples through the real p2sh binary."""
import os, re, struct, subprocess, json

VERIF = os.path.dirname(os.path.dirname(os.path.abspath(__file__)))

COMMON_ASSUMPTIONS = [
    "trusted: rustc front end, Kani 0.68 MIR->goto translation, CBMC 6.11, CaDiCaL; Kani's models of alloc/Rc/RefCell/memcpy; allocation never fails",
    "stub: std::fmt::format -> empty string (diagnostic text is not the subject of this property)",
    "harness objects are leaked (mem::forget), destructors are not exercised",
    "Kani models the dev profile (-C overflow-checks=on); counterexamples are replayed natively in dev and release",
]

PROTO = "src/builtins/protocols/"
INFO = {
    "C06": {
        "functions": ["Object::is_falsey (src/object/mod.rs)"],
        "bounds": "all values of Bool/Integer/Float/Char/Byte/Null; strings and arrays of 0..2 elements; maps of 0 (and best-effort 1) entries; representatives of non-table kinds",
        "outside": "that Bang/JumpIfFalse/JumpIfFalseNoPop and compile_logical_and/or use this predicate and yield operand values (compiler, VM::run: not symbolically executable)",
        "assumptions": ["stub: std::hash::RandomState::new -> fixed keys (map harnesses only; hash values never asserted on)"],
    },
    "C08": {
        "functions": ["<&Object as Add|Sub|Mul|Div|Rem|Neg|BitAnd|BitOr|BitXor|Shl|Shr> (src/object/mod.rs)", "Object::is_zero"],
        "bounds": "operand kinds enumerated (Integer/Float/Byte pairs; Integer pairs for bitwise; Integer|Float for unary minus), operand values unbounded",
        "outside": "recursion depth, frames, locals, return in filters, builtins, string repetition count: VM::run / builtin pointer table (not symbolically executable)",
        "assumptions": ["precondition read from VM::binary_op / bitwise_op (not solver-decided): operator closures are entered only with numeric operands, "
                        "and '/' and '%' only when Object::is_zero(right) is false (is_zero itself IS decided: harness family is_zero_*)"],
    },
    "C09": {
        "functions": ["<&Object as Add|Sub|Mul|Div|Rem|Neg|BitAnd|BitOr|BitXor|Shl|Shr>", "Object::eq", "Object::partial_cmp (through PartialOrd::gt/ge; numeric, Char and Str arms)", "Object::is_zero"],
        "bounds": "operand kinds enumerated, operand values unbounded (64-bit, all f64 bit patterns); for / and % engine K checks values with the right operand concrete per stamp "
                  "(3, -7, 3.0, 0.5, -2.0, byte 7) and the left operand symbolic, engine M with both symbolic (except float %)",
        "outside": "operand-kind dispatch and error cases of VM::binary_op (strings, chars, arrays, 'every other combination is a runtime error'), string concatenation/repetition",
        "assumptions": ["same dispatch precondition as C08"],
    },
    "C10": {
        "functions": ["Object::eq", "Object::hash (through a recording Hasher)", "Object::is_a_valid_key"],
        "bounds": "key kinds Integer/Float/Byte/Char/Bool/Null/Builtin(2 names)/Str of 0..2 ASCII bytes, all pairs",
        "outside": "array keys (element-wise fold; not reachable), insert/lookup sequences (std HashMap trusted given Eq/Hash agreement), hmap.rs / exec_hash_index / build_map glue (VM)",
        "assumptions": ["std::collections::HashMap behaves per its contract when Eq and Hash agree"],
    },
    "C15": {
        "functions": [PROTO + "{ethernet,vlan,ipv4,ipv6,tcp,udp}.rs: X::from_bytes, From<&XHeader> for Vec<u8>, From<&X> for Vec<u8>",
                      "src/builtins/pcap.rs: PcapPacketHeader::from_bytes, From<&PcapPacketHeader>, From<&PcapPacket> (hook H1)"],
        "bounds": "per stamp: buffer length <= 78 bytes, header offset in {0,14,18,22}, IPv4 version/IHL byte enumerated; inner cache empty",
        "outside": "composition through cached inner layers incl. cached error objects (argued in DESIGN 4/C15, not solver-decided), pcap_write/write/filter output glue",
        "assumptions": [],
    },
    "C16": {
        "functions": [PROTO + "*.rs: X::from_bytes and every numeric get_*; payload offset field", "src/builtins/pcap.rs: PcapGlobalHeader::from_bytes, PcapPacketHeader::from_bytes, PcapPacket getters (H1), Pcap getters (H4)"],
        "bounds": "per stamp: buffer length <= 78 bytes, header offset in {0,14,18,22}, IPv4 version/IHL byte enumerated (one stamp symbolic)",
        "outside": "addresses as text, payload array construction, $n / named-layer descent (VM::get_inner), property-name table (parser)",
        "assumptions": ["TCP 'flags' must equal ONE of the RFC 9293-consistent readings (8, 9 or 12 bits) for all inputs (any-of group)"],
    },
    "C17": {
        "functions": [PROTO + "*.rs: every numeric set_* with getters, serialiser and parser", "src/builtins/pcap.rs: PcapPacket setters (H1), Pcap global-header setters (H4)"],
        "bounds": "one assignment from an arbitrary header state; assigned value any i64; IPv4 harnesses pin the version/IHL byte to 0x45 and 0x46 (options present)",
        "outside": "src/dst address setters (text parsing), sequences of assignments (inductive argument), SetProp opcode glue (VM)",
        "assumptions": [],
    },
    "C19": {
        "functions": ["PcapGlobalHeader::from_bytes / new / From<&PcapGlobalHeader>", "PcapPacketHeader::from_bytes / From<&PcapPacketHeader>"],
        "bounds": "every input length 0..28 (global) and 0..20 (record), all byte contents",
        "outside": "record loop, read_all(f, n), caplen/snaplen test, truncation handling (real file descriptors inside FileHandle match arms)",
        "assumptions": [],
    },
    "C21": {
        "functions": ["read_from_file::<SymReader> and ::<BufReader<SymReader>> (src/builtins/functions.rs, hook H2)"],
        "bounds": "content length <= B (B = 1,2,3 required; 4 and the BufReader variant best effort), request n any usize, symbolic chunk size at every read() call",
        "outside": "byte VALUES in the returned array (not reachable, DESIGN 10); contents larger than the bound (4096/8192 buffer boundaries); read_line, read_to_string, open modes, write/flush",
        "assumptions": ["the reader honours the documented contract of std::io::Read::read: 0 only at end of input or for an empty buffer, else 1..=min(buf.len(), remaining)"],
    },
}

# ------------------------------------------------------------------------------------------------
# end-to-end rendering of packet-layer counterexamples

ETH_TYPE = {"Vlan": 0x8100, "Ipv4Packet": 0x0800, "Ipv6Packet": 0x86DD}
ACCESS = {"Ethernet": "p.eth", "Vlan": "p.eth.vlan", "Ipv4Packet": "p.eth.ipv4", "Ipv6Packet": "p.eth.ipv6",
          "Udp": "p.eth.ipv4.udp", "Tcp": "p.eth.ipv4.tcp"}
PROPS = {"Ethernet": ["type"], "Vlan": ["priority", "dei", "id", "type"],
         "Ipv4Packet": ["version", "ihl", "dscp", "ecn", "totlen", "id", "flags", "fragoff", "ttl", "proto", "checksum"],
         "Ipv6Packet": ["version", "trafficclass", "flowlabel", "len", "nextheader", "hoplimit"],
         "Udp": ["srcport", "dstport", "len", "checksum"],
         "Tcp": ["srcport", "dstport", "seq", "ack", "dataoff", "flags", "winsize", "checksum", "urgent"]}


def _frame(ty, layer_bytes):
    eth = bytes.fromhex("020000000001020000000002")
    if ty == "Ethernet":
        return layer_bytes
    if ty in ETH_TYPE:
        return eth + struct.pack(">H", ETH_TYPE[ty]) + layer_bytes
    proto = 17 if ty == "Udp" else 6
    ip = bytes([0x45, 0]) + struct.pack(">H", 20 + len(layer_bytes)) + bytes([0, 1, 0, 0, 64, proto, 0, 0, 10, 0, 0, 1, 10, 0, 0, 2])
    return eth + struct.pack(">H", 0x0800) + ip + layer_bytes


def _lit(kind, raw):
    """p2sh source text for an operand of kind 0=int 1=float 2=byte from its little-endian bytes."""
    import math
    if kind == 0:
        v = struct.unpack("<q", raw)[0]
        return "(-9223372036854775807 - 1)" if v == -(1 << 63) else (f"({v})" if v < 0 else str(v))
    if kind == 1:
        v = struct.unpack("<d", raw)[0]
        if math.isnan(v) or math.isinf(v):
            return None
        t = repr(v)
        if "e" in t or "E" in t:
            t = format(v, ".400f").rstrip("0")
            t = t + "0" if t.endswith(".") else t
            if len(t) > 420:
                return None
        return f"({t})" if v < 0 or t.startswith("-") else t
    return f"byte({raw[0]})"


def e2e_ops(prop, h, test):
    """Operator counterexample as a one-line p2sh program run through the real binary."""
    m = re.match(r"(arith|bitwise|neg|relational)\(([\d, a-z]+)\)", h.call)
    if not m:
        return None
    args = [x.strip() for x in m.group(2).split(",")]
    raw = bytes.fromhex(test["bytes"])
    size = {0: 8, 1: 8, 2: 1}
    try:
        if m.group(1) == "arith":
            op, ka, kb = int(args[0]), int(args[1]), int(args[2])
            a, b = _lit(ka, raw[:size[ka]]), _lit(kb, raw[size[ka]:size[ka] + size[kb]])
            expr = f"{a} {['+', '-', '*', '/', '%'][op]} {b}"
        elif m.group(1) == "bitwise":
            a, b = _lit(0, raw[:8]), _lit(0, raw[8:16])
            expr = f"{a} {['&', '|', '^', '<<', '>>'][int(args[0])]} {b}"
        elif m.group(1) == "neg":
            a, b = _lit(int(args[0]), raw[:8]), ""
            expr = f"-{a}"
        else:
            ka, kb = int(args[0]), int(args[1])
            a, b = _lit(ka, raw[:8]), _lit(kb, raw[8:16])
            expr = f'{a} > {b}, {a} >= {b}, {a} < {b}, {a} <= {b}, {a} == {b}'
        if a is None or b is None:
            return {"end_to_end": {"note": "operand is NaN or infinite: no literal form, not rendered"}}
        if m.group(1) == "relational":
            prog = 'println("{} {} {} {} {}", ' + expr + ');'
        else:
            prog = 'println("{}", ' + expr + ');'
        env = dict(os.environ, CARGO_NET_OFFLINE="true", RUSTFLAGS="--cfg p2sh_verif")
        tdir = os.path.join(VERIF, ".build", "native")
        res = {}
        for prof in ("debug", "release"):
            cmd = ["cargo", "build", "--offline", "--target-dir", tdir] + (["--release"] if prof == "release" else [])
            b_ = subprocess.run(cmd, cwd=os.path.join(VERIF, "kani"), env=env, stdout=subprocess.PIPE, stderr=subprocess.STDOUT, text=True, timeout=1800)
            binp = os.path.join(tdir, prof, "p2sh")
            if b_.returncode != 0 or not os.path.exists(binp):
                res[prof] = "build failed"
                continue
            r = subprocess.run([binp, "-c", prog], stdout=subprocess.PIPE, stderr=subprocess.STDOUT, text=True, timeout=60)
            res[prof] = {"exit_status": r.returncode, "panicked": "panicked" in r.stdout, "output": r.stdout[-600:]}
        return {"end_to_end": {"note": "informational: the operands as a p2sh one-liner through the real binary (both profiles)",
                               "program": prog, "result": res}}
    except Exception as e:
        return {"end_to_end": {"error": str(e)}}


def e2e(prop, h, test, verdicts):
    r = e2e_ops(prop, h, test)
    if r is not None:
        return r
    return e2e_layers(prop, h, test, verdicts)


def e2e_layers(prop, h, test, verdicts):
    """Render a dec/ser/payoff counterexample as a one-record pcap + p2sh script, run the real binary
    (the harness package's own build of /repo's sources) and record what it prints / writes."""
    try:
        m = re.match(r"(dec|ser|payoff)::<(\w+)(?:<\d+>)?, (\d+)>\((\d+), (-?\d+)\)", h.call)
        if not m:
            return None
        fn, ty, L, off, pin = m.group(1), m.group(2), int(m.group(3)), int(m.group(4)), int(m.group(5))
        if ty.startswith("TcpW"):
            ty = "Tcp"
        if ty not in ACCESS:
            return None
        raw = bytearray(bytes.fromhex(test["bytes"])[:L].ljust(L, b"\0"))
        if pin >= 0 and off < L:
            raw[off] = pin
        layer = bytes(raw[off:])
        frame = _frame(ty, layer)
        d = os.path.join(VERIF, ".build", "e2e", h.name)
        os.makedirs(d, exist_ok=True)
        pcap = struct.pack("<IHHiIII", 0xA1B2C3D4, 2, 4, 0, 0, 65535, 1) + struct.pack("<IIII", 1, 2, len(frame), len(frame)) + frame
        open(os.path.join(d, "in.pcap"), "wb").write(pcap)
        acc = ACCESS[ty]
        lines = ['let f = pcap_open("in.pcap", "r");', 'let o = pcap_open("out.pcap", "w");', "let p = pcap_read_next(f);"]
        for pr in PROPS[ty]:
            lines.append(f'println("{pr}={{}}", {acc}.{pr});')
        lines.append(f'println("payload_len={{}}", len({acc}.payload));')
        lines.append("pcap_write(o, p);")
        open(os.path.join(d, "script.p2"), "w").write("\n".join(lines) + "\n")
        env = dict(os.environ, CARGO_NET_OFFLINE="true", RUSTFLAGS="--cfg p2sh_verif")
        tdir = os.path.join(VERIF, ".build", "native")
        b = subprocess.run(["cargo", "build", "--offline", "--target-dir", tdir], cwd=os.path.join(VERIF, "kani"), env=env,
                           stdout=subprocess.PIPE, stderr=subprocess.STDOUT, text=True, timeout=1200)
        binp = os.path.join(tdir, "debug", "p2sh")
        if b.returncode != 0 or not os.path.exists(binp):
            return {"end_to_end": {"error": "could not build the p2sh binary"}}
        for fnm in ("out.pcap",):
            try:
                os.remove(os.path.join(d, fnm))
            except OSError:
                pass
        r = subprocess.run([binp, "script.p2"], cwd=d, stdout=subprocess.PIPE, stderr=subprocess.STDOUT, text=True, timeout=60)
        outp = os.path.join(d, "out.pcap")
        same = os.path.exists(outp) and open(outp, "rb").read() == pcap
        return {"end_to_end": {"note": "informational rendering through the real binary (layer placed behind a synthetic Ethernet/IPv4 header where needed); "
                                       "the deciding replay is the native harness replay above",
                               "frame_hex": frame.hex(), "script": lines, "exit_status": r.returncode,
                               "panicked": "panicked" in r.stdout, "stdout_tail": r.stdout[-1500:],
                               "pcap_write_reproduces_input": same, "dir": d}}
    except Exception as e:      # never let the rendering break a report
        return {"end_to_end": {"error": str(e)}}
