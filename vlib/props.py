"""Per-property description emitted into the evidence (functions encoded, bounds, assumptions)."""

COMMON_ASSUMPTIONS = [
    "trusted: rustc front end, Kani 0.68 MIR->goto translation, CBMC 6.11, CaDiCaL; Kani's models of alloc/Rc/RefCell/memcpy; allocation never fails",
    "stub: std::fmt::format -> empty string (diagnostic text is not the subject of this property)",
    "harness objects are leaked (mem::forget), destructors are not exercised",
    "Kani models the dev profile (-C overflow-checks=on); counterexamples are replayed natively in dev and release",
]

INFO = {}


def e2e(prop, h, test, verdicts):
    """End-to-end rendering of a counterexample through the real binary, where one exists."""
    return None
