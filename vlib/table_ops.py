"""C06 / C08 / C09 / C10 harness tables (operand kinds concrete, operand values symbolic)."""
from .table import H, FMT_STUB

KN = {0: "int", 1: "float", 2: "byte"}
OPS = {0: "add", 1: "sub", 2: "mul", 3: "div", 4: "rem"}
BW = {0: "and", 1: "or", 2: "xor", 3: "shl", 4: "shr"}


def harnesses():
    out = []
    # ---- arithmetic: 5 ops x 3x3 kinds; C08 = no panic, C09 = value
    for op, on in OPS.items():
        for ka, an in KN.items():
            for kb, bn in KN.items():
                is_float = (ka == 1 or kb == 1)
                heavy = is_float and on in ("mul", "div", "rem")
                # 64-bit integer division against a second divider circuit does not finish under
                # bit-blasting (measured: >20 min); the value model for these is decided by engine M
                # (MIR->SMT, where both sides are the same bvsdiv/bvsrem term). Kept best-effort.
                intdiv = on in ("div", "rem") and ka == 0 and kb in (0, 2)
                symd = f"left any {an}, right any {bn} (full width)"
                # C09: value model
                if on in ("div", "rem"):
                    # symbolic left operand, concrete right operand per stamp (see ops.rs arith_cr)
                    consts = {"int": [("3", 3.0), ("m7", -7.0)], "float": [("3", 3.0), ("half", 0.5), ("m2", -2.0)], "byte": [("7", 7.0)]}[bn]
                    for ci, (cn, cv) in enumerate(consts):
                        slow = (on == "rem" and is_float)
                        out.append(H(f"c09_{on}_{an}_{bn}_by_{cn}", "C09", "quick" if (ci == 0 and not slow) else "thorough",
                                     f"arith_cr({op}, {ka}, {kb}, {cv!r})", f"arith_{on}_{an}_{bn}",
                                     f"left any {an} (full width), right = {cv} as {bn} (concrete)", timeout=600))
                    # the fully symbolic VALUE harness never finished for / and % (any kinds): not generated;
                    # engine M decides the fully symbolic case for everything but float %.
                    # Crash freedom (C08) stays fully symbolic:
                    out.append(H(f"c08_{on}_{an}_{bn}", "C08", "thorough" if heavy else "quick",
                                 f"arith({op}, {ka}, {kb}, false)", f"arith_{on}_{an}_{bn}", symd,
                                 timeout=900 if heavy else 300, required=not heavy))
                    continue
                out.append(H(f"c09_{on}_{an}_{bn}", "C09", "thorough" if ((is_float and on != "add") or intdiv) else "quick",
                             f"arith({op}, {ka}, {kb}, true)", f"arith_{on}_{an}_{bn}", symd,
                             timeout=900 if (heavy or intdiv) else 300, required=not (heavy or intdiv)))
                # C08: crash freedom (cheaper: no reference computation)
                out.append(H(f"c08_{on}_{an}_{bn}", "C08", "thorough" if heavy else "quick",
                             f"arith({op}, {ka}, {kb}, false)", f"arith_{on}_{an}_{bn}", symd,
                             timeout=900 if heavy else 300, required=not heavy))
    for op, on in BW.items():
        out.append(H(f"c09_{on}_int_int", "C09", "quick", f"bitwise({op}, true)", f"bitwise_{on}",
                     "left any i64, right any i64"))
        out.append(H(f"c08_{on}_int_int", "C08", "quick", f"bitwise({op}, false)", f"bitwise_{on}",
                     "left any i64, right any i64"))
    for k in (0, 1):
        out.append(H(f"c09_neg_{KN[k]}", "C09", "quick", f"neg({k}, true)", f"neg_{KN[k]}", f"operand any {KN[k]}"))
        out.append(H(f"c08_neg_{KN[k]}", "C08", "quick", f"neg({k}, false)", f"neg_{KN[k]}", f"operand any {KN[k]}"))
    # ---- the VM's zero-divisor test itself: is_zero(x) <=> x is a numeric zero (0, +-0.0, b'\0')
    for k, n in KN.items():
        out.append(H(f"c09_is_zero_{n}", "C09", "quick", f"is_zero_spec({k})", f"is_zero_{n}", f"any {n} value"))
        out.append(H(f"c08_is_zero_{n}", "C08", "quick", f"is_zero_spec({k})", f"is_zero_{n}", f"any {n} value"))
    # ---- relational / equality over Integer and Float (the kinds C09 speaks about)
    for ka in (0, 1):
        for kb in (0, 1):
            out.append(H(f"c09_rel_{KN[ka]}_{KN[kb]}", "C09", "quick", f"relational({ka}, {kb})",
                         f"rel_{KN[ka]}_{KN[kb]}", f"left any {KN[ka]}, right any {KN[kb]}", timeout=600))
    # ---- chars and short strings compare lexicographically
    out.append(H("c09_rel_char_char", "C09", "quick", "relational_text(3, 3)", "rel_char_char", "left any char, right any char"))
    for (x, y) in ((7, 8), (8, 8), (8, 7), (6, 7)):
        out.append(H(f"c09_rel_str{x-6}_str{y-6}", "C09", "quick" if (x, y) == (8, 8) else "thorough", f"relational_text({x}, {y})",
                     "rel_str_str", f"strings of {x-6} and {y-6} symbolic ASCII bytes", timeout=600))
    # ---- C06
    for k, n in {0: "bool", 1: "int", 2: "float", 3: "char", 4: "byte", 5: "null"}.items():
        out.append(H(f"c06_falsey_{n}", "C06", "quick", f"falsey_scalar({k})", f"falsey_{n}", f"any {n} value"))
    for l in (0, 1, 2):
        out.append(H(f"c06_falsey_str{l}", "C06", "quick", f"falsey_str({l})", "falsey_str",
                     f"string of {l} symbolic ASCII bytes"))
        out.append(H(f"c06_falsey_arr{l}", "C06", "quick", f"falsey_arr({l})", "falsey_arr",
                     f"array of {l} symbolic integers"))
    RS_STUB = ("std::hash::RandomState::new", "crate::verif::stubs::random_state_stub")
    out.append(H("c06_falsey_map0", "C06", "quick", "falsey_map(0)", "falsey_map", "empty map (HMap::default())",
                 stubs=[FMT_STUB, RS_STUB]))
    out.append(H("c06_falsey_map1", "C06", "thorough", "falsey_map(1)", "falsey_map", "map with one entry, key any i64",
                 stubs=[FMT_STUB, RS_STUB], required=False, timeout=600, unwind=20))
    for w in (0, 1):
        out.append(H(f"c06_falsey_other{w}", "C06", "quick", f"falsey_other({w})", "falsey_other",
                     "concrete representative of a kind outside the table"))
    # ---- C10
    KK = {0: "int", 1: "float", 2: "byte", 3: "char", 4: "bool", 5: "null", 6: "str0", 7: "str1", 8: "str2", 9: "builtin"}
    quick_pairs = {(0, 0), (0, 1), (1, 0), (1, 1), (2, 2), (3, 3), (4, 4), (7, 7), (8, 8), (0, 2), (2, 4), (3, 7), (9, 9)}
    for a, an in KK.items():
        for b, bn in KK.items():
            tier = "quick" if (a, b) in quick_pairs else "thorough"
            out.append(H(f"c10_eqhash_{an}_{bn}", "C10", tier, f"key_eq_hash({a}, {b})", f"eqhash_{an}_{bn}",
                         f"k1 any {an}, k2 any {bn}", unwind=20))   # the recorder compares 16 events: loop of 16
        out.append(H(f"c10_refl_{an}", "C10", "quick", f"key_refl({a})", f"refl_{an}", f"k any {an}", unwind=20 if a == 9 else 14))
    return out
