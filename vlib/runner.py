"""Run Kani on a set of harnesses and parse the per-check JSON export."""
import json, os, re, resource, subprocess, time, hashlib

VERIF = os.path.dirname(os.path.dirname(os.path.abspath(__file__)))
KANI_DIR = os.path.join(VERIF, "kani")
BUILD = os.path.join(VERIF, ".build")
MOD = "verif::gen::"

# Failed checks that are not Rust panics: Kani adds CBMC's NaN / float-overflow checks; producing
# NaN or inf is defined IEEE-754 behaviour (C09 demands it). Counted, never a violation.
IGNORED_DESC = re.compile(r"^(NaN on |arithmetic overflow on floating-point)")
UNWIND_DESC = re.compile(r"unwinding assertion|recursion unwinding")
UNSUPPORTED = re.compile(r"is not currently supported by Kani|unsupported|Unsupported")


def _limits(mem_gb):
    # own session so that the whole tree can be killed; memory is policed by the RSS watchdog below
    # (an address-space rlimit on the whole tree made the multi-threaded kani-driver itself abort with
    # "memory allocation failed" while assembling its JSON export, after all harnesses had finished)
    def f():
        os.setsid()
    return f


def _watchdog(stop, mem_gb, killed):
    """Kill any cbmc process whose resident set exceeds mem_gb (62 GB box, no swap, -j 14)."""
    import threading
    lim_kb = int(mem_gb * 1024 * 1024)
    while not stop.wait(5.0):
        try:
            out = subprocess.run(["ps", "-eo", "pid,rss,comm"], stdout=subprocess.PIPE, text=True).stdout
            for ln in out.splitlines()[1:]:
                parts = ln.split()
                if len(parts) >= 3 and parts[2] == "cbmc" and int(parts[1]) > lim_kb:
                    os.kill(int(parts[0]), 9)
                    killed.append(int(parts[0]))
        except Exception:
            pass


def env_base():
    e = dict(os.environ)
    e["CARGO_NET_OFFLINE"] = "true"
    e.pop("RUSTFLAGS", None)
    return e


def sync_lock():
    """Cargo.lock of the harness package = /repo's (same dependency versions, offline)."""
    src = "/repo/Cargo.lock"
    dst = os.path.join(KANI_DIR, "Cargo.lock")
    try:
        s = open(src).read()
        if not os.path.exists(dst) or open(dst).read() != s:
            open(dst, "w").write(s)
    except FileNotFoundError:
        pass


class HarnessResult:
    def __init__(self, name):
        self.name = name
        self.status = "missing"      # success | failed | timeout | error | missing
        self.duration_s = 0.0
        self.failed = []             # [{description, category, function, file, line}]
        self.ignored = []            # failed checks of ignored classes
        self.unwind_failed = []
        self.unsupported = []
        self.covers = {}             # description -> status
        self.n_checks = 0
        self.stats = {}
        self.raw_status = ""

    @property
    def end_reached(self):
        return self.covers.get("end reached") == "Satisfied"

    @property
    def discharged(self):
        """Verified within its bound: no failed check of any kind, unwinding assertions hold,
        and the reachability witness at the end of the harness is satisfiable (not vacuous)."""
        return (self.status == "success" and not self.failed and not self.unwind_failed
                and not self.unsupported and self.end_reached)

    @property
    def violated(self):
        return bool(self.failed)

    @property
    def inconclusive(self):
        return not self.discharged and not self.violated

    def brief(self):
        return {"harness": self.name, "status": self.status, "discharged": self.discharged,
                "checks": self.n_checks, "failed": [f["description"] for f in self.failed],
                "ignored_float_checks": len(self.ignored), "end_cover": self.covers.get("end reached"),
                "wall_s": round(self.duration_s, 2), "solver_s": self.stats.get("runtime_solver_s"),
                "vccs": self.stats.get("vccs_generated")}


def parse_export(path, names):
    res = {n: HarnessResult(n) for n in names}
    try:
        d = json.load(open(path))
    except Exception:
        return res
    stats = {c["harness_id"]: c.get("cbmc_stats", {}) for c in d.get("cbmc", []) if "harness_id" in c}
    for r in d.get("verification_results", {}).get("results", []):
        hid = r.get("harness_id", "")
        n = hid[len(MOD):] if hid.startswith(MOD) else hid.split("::")[-1]
        if n not in res:
            continue
        hr = res[n]
        hr.raw_status = str(r.get("status"))
        hr.duration_s = r.get("duration_ms", 0) / 1000.0
        hr.stats = stats.get(hid, {}) or {}
        checks = r.get("checks", []) or []
        hr.n_checks = len(checks)
        for c in checks:
            st = str(c.get("status", "")).lower()
            desc = str(c.get("description", ""))
            cat = str(c.get("category", ""))
            if cat == "cover" or st in ("satisfied", "unsatisfiable"):
                hr.covers[desc] = "Satisfied" if st == "satisfied" else ("Unsatisfiable" if st == "unsatisfiable" else c.get("status"))
                continue
            if st in ("success", "unreachable"):
                continue
            loc = c.get("location") or {}
            item = {"description": desc.strip('"'), "category": cat, "function": c.get("function"),
                    "file": loc.get("file"), "line": loc.get("line"), "status": c.get("status")}
            if st == "failure" or st == "failed":
                if UNWIND_DESC.search(desc) or cat == "unwind":
                    hr.unwind_failed.append(item)
                elif IGNORED_DESC.search(desc.strip('"')):
                    hr.ignored.append(item)
                elif UNSUPPORTED.search(desc) or cat == "unsupported_construct":
                    hr.unsupported.append(item)
                else:
                    hr.failed.append(item)
            else:
                # undetermined / solver error: never a pass
                hr.unsupported.append(item)
        rs = hr.raw_status.lower()
        if "success" in rs:
            hr.status = "success"
        elif "fail" in rs:
            hr.status = "failed"
        elif "timeout" in rs or "timed" in rs:
            hr.status = "timeout"
        else:
            hr.status = "error"
        # a run whose only failed checks are ignored float checks counts as success
        if hr.status == "failed" and not hr.failed and not hr.unwind_failed and not hr.unsupported and hr.ignored:
            hr.status = "success"
    return res


def run_kani(names, tag, jobs=14, timeout_s=300, mem_gb=16, log=None, playback=False):
    """One cargo-kani invocation over `names`. Returns (dict name->HarnessResult, stdout text, wall)."""
    os.makedirs(BUILD, exist_ok=True)
    tdir = os.path.join(BUILD, tag)
    base = os.path.join(BUILD, "base")
    if not os.path.isdir(tdir) and os.path.isdir(base):
        # dependency crates were compiled once by ./setup; start from a copy (own dir per check so
        # that checks of different properties can run concurrently)
        subprocess.run(["cp", "-a", base, tdir], check=False)
    export = os.path.join(BUILD, f"{tag}.export.{os.getpid()}.json")
    if os.path.exists(export):
        os.remove(export)
    cmd = ["cargo", "kani", "-Z", "stubbing", "-Z", "unstable-options", "--target-dir", tdir,
           "--output-format", "terse", "--exact", "--harness-timeout", f"{int(timeout_s)}s"]
    if playback:
        cmd += ["-Z", "concrete-playback", "--concrete-playback=print"]
    else:
        cmd += ["--export-json", export, "-j", str(max(1, min(jobs, len(names))))]
    for n in names:
        cmd += ["--harness", MOD + n]
    t0 = time.time()
    import threading
    stop = threading.Event()
    killed = []
    wd = threading.Thread(target=_watchdog, args=(stop, mem_gb, killed), daemon=True)
    wd.start()
    p = subprocess.Popen(cmd, cwd=KANI_DIR, env=env_base(), stdout=subprocess.PIPE, stderr=subprocess.STDOUT,
                         text=True, preexec_fn=_limits(mem_gb))
    try:
        # generous outer cap: every harness at its cap, divided over the jobs, plus the build
        outer = 600 + timeout_s * (1 + len(names) // max(1, jobs)) * 1.2
        out, _ = p.communicate(timeout=outer)
    except subprocess.TimeoutExpired:
        try:
            os.killpg(p.pid, 9)
        except Exception:
            pass
        out, _ = p.communicate()
        out += "\nVERIF: outer timeout\n"
    wall = time.time() - t0
    stop.set()
    if killed:
        out += f"\nVERIF: memory watchdog killed {len(killed)} cbmc process(es) above {mem_gb} GB RSS\n"
    if log:
        with open(log, "a") as f:
            f.write("$ " + " ".join(cmd[:14]) + f" ... ({len(names)} harnesses)\n" + out + "\n")
    res = parse_export(export, names) if not playback else {}
    if not playback:
        # harnesses that hit the per-harness cap appear in stdout, not always in the export
        for m in re.finditer(r"harness ([\w:]+) timed out|Harness ([\w:]+) timed out|TIMEOUT[^\n]*?([\w:]+::gen::\w+)", out, re.I):
            hid = next(g for g in m.groups() if g)
            n = hid.split("::")[-1]
            if n in res and res[n].status in ("missing", "error"):
                res[n].status = "timeout"
        try:
            os.remove(export)
        except OSError:
            pass
    build_failed = ("error: could not compile" in out) or ("error[E" in out and "Finished" not in out)
    return res, out, wall, build_failed


def parse_playback(out):
    """-> list of {check_class, description, bytes(hex)} from Kani's concrete-playback=print output."""
    tests = []
    for blk in out.split("/// Test generated for harness")[1:]:
        m = re.search(r"/// Check for `([^`]*)`: \"(.*)\"\s*\n", blk)
        if not m:
            continue
        body = blk.split("let concrete_vals", 1)
        if len(body) < 2:
            continue
        body = body[1].split("kani::concrete_playback_run", 1)[0]
        bs = bytearray()
        for vm in re.finditer(r"vec!\[([0-9,\s]*)\]", body):
            inner = vm.group(1).strip()
            if inner == "":
                continue
            # skip the outer `vec![` (it contains newlines/comments, the regex above only matches flat ones)
            bs.extend(int(x) for x in inner.split(",") if x.strip() != "")
        tests.append({"check_class": m.group(1), "description": m.group(2).strip('"'), "bytes": bs.hex()})
    return tests


def native_replay(name, hexbytes, profile, log=None):
    """Run the same harness body natively on the counterexample. profile: 'dev' | 'release'.
    -> ('reproduced' | 'passed' | 'assume-failed' | 'build-failed' | 'error', output tail)"""
    tdir = os.path.join(BUILD, "native")
    env = env_base()
    env["RUSTFLAGS"] = "--cfg p2sh_verif"
    env["VERIF_REPLAY_HARNESS"] = name
    if len(hexbytes) > 60000:
        fpath = os.path.join(BUILD, f"replay.{os.getpid()}.txt")
        open(fpath, "w").write(hexbytes.replace(";", "\n"))
        env["VERIF_REPLAY_BYTES_FILE"] = fpath
        env.pop("VERIF_REPLAY_BYTES", None)
    else:
        env["VERIF_REPLAY_BYTES"] = hexbytes
    env["RUST_BACKTRACE"] = "0"
    cmd = ["cargo", "test", "--offline", "--target-dir", tdir]
    if profile == "release":
        cmd.append("--release")
    cmd += ["verif::replay", "--", "--exact", "--nocapture", "--test-threads", "1"]
    try:
        p = subprocess.run(cmd, cwd=KANI_DIR, env=env, stdout=subprocess.PIPE, stderr=subprocess.STDOUT, text=True, timeout=1800)
    except subprocess.TimeoutExpired:
        return "error", "native replay timed out"
    out = p.stdout
    if log:
        with open(log, "a") as f:
            f.write(f"$ native replay {name} [{profile}]\n" + out[-6000:] + "\n")
    tail = "\n".join(out.strip().splitlines()[-25:])
    if "error: could not compile" in out:
        return "build-failed", tail
    if "VERIF-REPLAY-ASSUME-FAILED" in out:
        return "assume-failed", tail
    if "VERIF-REPLAY-COMPLETED-WITHOUT-FAILURE" in out:
        return "passed", tail
    if "VERIF-REPLAY-START" in out and ("panicked at" in out or p.returncode != 0):
        m = re.search(r"VERIF-REPLAY-REPRODUCED idx=\d+ bytes=([0-9a-fA-F]*)", out)
        if m:
            tail = "REPRODUCING-STREAM " + m.group(1) + "\n" + tail
        return "reproduced", tail
    return "error", tail


def witness_candidates(h):
    """When Kani's concrete playback yields nothing (C21: CBMC runs out of memory building the trace
    over the 4096-byte buffer), the violation the solver established is reproduced by searching the
    SAME bounded input space natively: all byte streams of the harness's symbolic variables within
    the stamp's bound. Only used to obtain a reportable witness; the verdict is the solver's."""
    import itertools, struct, re as _re
    m = _re.match(r"read_prefix::<(\d+)>\((\d+)\)", h.call)
    if not m:
        return []
    B = int(m.group(1))
    out = []
    content = bytes(range(0x41, 0x41 + B))
    ns = list(range(0, B + 2)) + [(1 << 64) - 1]
    for ln in range(0, B + 1):
        for n in ns:
            for depth in range(0, B + 2):
                for ks in itertools.product(range(1, B + 1), repeat=depth):
                    out.append((content + struct.pack("<Q", ln) + struct.pack("<Q", n) + b"".join(struct.pack("<Q", k) for k in ks)).hex())
    return out
