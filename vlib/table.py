"""Harness tables: which (shape-concrete, content-symbolic) harness instances exist per property.

Every entry becomes one `#[kani::proof]` in /verif/kani/src/verif/gen.rs (regenerated on every run)
plus one arm of the native replay dispatch table.  The set of entries of a tier IS the bound of the
claim for that tier; it is copied into the evidence file.
"""
from dataclasses import dataclass, field
from typing import Optional, List

FMT_STUB = ("std::fmt::format", "crate::verif::stubs::format_stub")


@dataclass
class H:
    name: str                 # harness fn name (unique)
    prop: str                 # property id
    tier: str                 # 'quick' (also run in thorough) or 'thorough'
    call: str                 # rust expression (body of the harness)
    family: str               # role key for findings: what kind of obligation this is
    sym: str                  # what is symbolic (for evidence)
    unwind: int = 14
    stubs: list = field(default_factory=lambda: [FMT_STUB])
    required: bool = True     # must be discharged for the tier to be conclusive
    alt_group: Optional[str] = None   # any-of group: the group holds if for one `alt` all members hold
    alt: Optional[str] = None
    timeout: int = 300        # per-harness wall cap in seconds
    excl_of: Optional[str] = None     # this harness is the known-finding-excluding variant of <name>
    twin_of: Optional[str] = None     # falsification twin (must FAIL): vacuity guard, thorough tier
    cfg: Optional[str] = None         # extra cfg needed (hooks)
    note: str = ""


LAYERS = {
    # name: (rust type, fixed header size, unwind)
    "eth": ("Ethernet", 14, 14),
    "vlan": ("Vlan", 4, 14),
    "ipv4": ("Ipv4Packet", 20, 14),   # + options loop, bounded per stamp by the buffer (see unw())
    "ipv6": ("Ipv6Packet", 40, 14),
    "udp": ("Udp", 8, 14),
    "tcp": ("Tcp", 20, 14),
}
TCPW = {"tcp8": "TcpW<8>", "tcp9": "TcpW<9>", "tcp12": "TcpW<12>"}


def unwind_of(lname, l, off):
    """Unwind bound of a stamp. IPv4 copies 4*IHL-20 option bytes in a loop; the parser first
    checks that they fit in the buffer, so the trip count is bounded by L-off-20 (<= 40).
    Unwinding assertions stay on: a bound that is too small is reported, never silently cut."""
    base = LAYERS[lname][2]
    if lname == "ipv4":
        return max(base, min(40, max(0, l - off - 20)) + 3)
    return base


def _lens_full(hsz, off):
    return list(range(0, off + hsz + 7))


def layer_harnesses() -> List[H]:
    out = []
    seen = set()

    def add(h):
        if h.name in seen:
            return
        seen.add(h.name)
        out.append(h)

    def stamps(lname, fam, tier, lst, prop, fn, extra_sym=""):
        ty, hsz, _ = LAYERS[lname]
        for (l, off, pin) in lst:
            pn = "" if pin < 0 else f"_b{pin:02x}"
            ps = "" if pin < 0 else f", version/IHL byte = 0x{pin:02x} (concrete)"
            # the largest IPv4 shapes (40 option bytes) take 5-15 min each: best effort, never required
            big = lname == "ipv4" and (l - off) >= 58
            add(H(f"{prop.lower()}_{lname}_{fn}_l{l}_o{off}{pn}", prop, tier, f"{fn}::<{ty}, {l}>({off}, {pin})",
                  f"{lname}_{fn}", f"{l} buffer bytes ({8*l} bits) symbolic, header at offset {off}{ps}{extra_sym}",
                  unwind_of(lname, l, off), required=not big, timeout=900 if big else 300))

    for lname, (ty, hsz, _u) in LAYERS.items():
        if lname == "ipv4":
            # IPv4: version/IHL byte enumerated (stamp), everything else symbolic.
            # quick: IHL 5, 6 (options), 3 (invalid, < 5), 15 in a short buffer (truncated options)
            dq = [(19, 0, 0x45), (20, 0, 0x45), (24, 0, 0x45), (24, 0, 0x46), (24, 0, 0x43), (24, 0, 0x4F),
                  (38, 14, 0x45), (20, 0, -1),
                  # header behind an Ethernet header: options complete / cut inside the options
                  (38, 14, 0x46), (37, 14, 0x46), (40, 14, 0x46),
                  # buffer cut inside the 20 fixed bytes with the version/IHL byte SYMBOLIC (every IHL,
                  # including the invalid ones below 5, against a truncated fixed header)
                  (19, 0, -1), (15, 0, -1), (33, 14, -1)]
            dt = [(l, 0, 0x45) for l in _lens_full(20, 0)]
            dt += [(20 + 4 * (i - 5) + 2, 0, 0x40 + i) for i in range(5, 16)]          # every IHL, options fit
            dt += [(20 + 4 * (i - 5) - 1, 0, 0x40 + i) for i in range(6, 16)]          # options cut by one byte
            dt += [(24, 0, 0x40 + i) for i in range(0, 5)] + [(24, 0, 0x65), (64, 0, 0x4F), (78, 14, 0x4F),
                                                              (37, 18, 0x45), (38, 18, 0x45), (42, 18, 0x46),
                                                              (41, 22, 0x45), (42, 22, 0x45), (46, 22, 0x46), (45, 22, 0x46)]
            dt += [(l, 0, -1) for l in range(1, 20)] + [(l, 14, -1) for l in range(15, 34)]    # truncated fixed header, any IHL
            for off in (14, 18):                                                       # same at non-zero offsets
                dt += [(off + 4 * i, off, 0x40 + i) for i in (6, 7, 10, 15)]           # options just fit
                dt += [(off + 4 * i - 1, off, 0x40 + i) for i in (6, 7, 10, 15)]       # cut by one byte
                dt += [(off + 21, off, 0x40 + i) for i in (6, 15)]                     # cut right after the fixed header
            stamps(lname, "dec", "quick", dq, "C16", "dec")
            stamps(lname, "dec", "thorough", dt, "C16", "dec")
            stamps(lname, "payoff", "quick", [(24, 0, 0x45), (24, 0, 0x46), (24, 0, 0x43)], "C16", "payoff")
            stamps(lname, "payoff", "thorough", [(64, 0, 0x4F), (44, 14, 0x47), (20, 0, 0x45), (24, 0, 0x65)], "C16", "payoff")
            sq = [(20, 0, 0x45), (24, 0, 0x45), (24, 0, 0x46), (24, 0, 0x43), (40, 14, 0x46)]
            st = [(l, 0, 0x45) for l in range(20, 27)]
            st += [(20 + 4 * (i - 5) + 2, 0, 0x40 + i) for i in range(5, 16)]
            st += [(24, 0, 0x40 + i) for i in range(0, 5)] + [(64, 0, 0x4F), (78, 14, 0x4F), (42, 18, 0x46), (24, 0, 0x65), (48, 22, 0x46)]
            stamps(lname, "ser", "quick", sq, "C15", "ser", ", 1 symbolic compare index")
            stamps(lname, "ser", "thorough", st, "C15", "ser", ", 1 symbolic compare index")
            continue
        # ---------------- C16 decode: field getters + accept/reject + no panic
        quick = [(hsz - 1, 0), (hsz, 0), (hsz + 4, 0), (14 + hsz, 14)]
        thorough = [(l, 0) for l in _lens_full(hsz, 0)]
        for off in (14, 18, 22):          # behind Ethernet, one VLAN tag, two VLAN tags (QinQ)
            thorough += [(off - 1, off), (off + hsz - 1, off), (off + hsz, off), (off + hsz + 5, off)]
        if lname == "tcp":
            thorough += [(24, 0), (60, 0), (64, 0)]
        stamps(lname, "dec", "quick", [(l, o, -1) for (l, o) in quick], "C16", "dec")
        stamps(lname, "dec", "thorough", [(l, o, -1) for (l, o) in thorough], "C16", "dec")
        # ---------------- C16 payload offset
        po_q = [(hsz + 4, 0)]
        po_t = [(hsz, 0), (14 + hsz + 8, 14)]
        if lname == "tcp":
            po_q += [(24, 0)]
            po_t += [(64, 0)]
        stamps(lname, "payoff", "quick", [(l, o, -1) for (l, o) in po_q], "C16", "payoff")
        stamps(lname, "payoff", "thorough", [(l, o, -1) for (l, o) in po_t], "C16", "payoff")
        # ---------------- C15 SER(X): serialise(parse(raw)) == raw
        s_q = [(hsz, 0), (hsz + 4, 0)]
        s_t = [(l, 0) for l in range(hsz, hsz + 7)] + [(14 + hsz, 14), (14 + hsz + 5, 14), (18 + hsz + 3, 18), (22 + hsz + 2, 22)]
        if lname == "tcp":
            s_q += [(24, 0)]
            s_t += [(60, 0), (64, 0)]
        stamps(lname, "ser", "quick", [(l, o, -1) for (l, o) in s_q], "C15", "ser", ", 1 symbolic compare index")
        stamps(lname, "ser", "thorough", [(l, o, -1) for (l, o) in s_t], "C15", "ser", ", 1 symbolic compare index")

    # ---------------- C16 TCP flags: three RFC readings, any-of
    for alt, ty in TCPW.items():
        for tier, (l, off) in (("quick", (20, 0)), ("thorough", (40, 14)), ("thorough", (24, 0))):
            add(H(f"c16_{alt}_dec_l{l}_o{off}", "C16", tier, f"dec::<{ty}, {l}>({off}, -1)",
                  "tcp_flags_dec", f"{l} buffer bytes, header at offset {off}", 14,
                  alt_group="tcp_flags_reading", alt=alt))
    return out


# C17: (layer, property, setter call, snap index k, bit offset, width, alias idx or None, bool_valued)
SETTERS = [
    ("eth", "type", "set_ethertype", 0, 96, 16, 1, False),
    ("vlan", "priority", "set_priority", 0, 0, 3, None, False),
    ("vlan", "dei", "set_dei", 1, 3, 1, None, True),
    ("vlan", "id", "set_vlan_id", 2, 4, 12, None, False),
    ("vlan", "type", "set_ethertype", 3, 16, 16, 4, False),
    ("ipv4", "ihl", "set_ihl", 1, 4, 4, None, False),
    ("ipv4", "dscp", "set_dscp", 2, 8, 6, None, False),
    ("ipv4", "ecn", "set_ecn", 3, 14, 2, None, False),
    ("ipv4", "totlen", "set_total_length", 4, 16, 16, None, False),
    ("ipv4", "id", "set_identification", 5, 32, 16, None, False),
    ("ipv4", "flags", "set_flags", 6, 48, 3, None, False),
    ("ipv4", "fragoff", "set_fragment_offset", 7, 51, 13, None, False),
    ("ipv4", "ttl", "set_ttl", 8, 64, 8, None, False),
    ("ipv4", "proto", "set_protocol", 9, 72, 8, 11, False),
    ("ipv4", "checksum", "set_checksum", 10, 80, 16, None, False),
    ("ipv6", "trafficclass", "set_traffic_class", 1, 4, 8, None, False),
    ("ipv6", "flowlabel", "set_flow_label", 2, 12, 20, None, False),
    ("ipv6", "len", "set_payload_length", 3, 32, 16, None, False),
    ("ipv6", "nextheader", "set_next_header", 4, 48, 8, 6, False),
    ("ipv6", "hoplimit", "set_hop_limit", 5, 56, 8, None, False),
    ("udp", "srcport", "set_source_port", 0, 0, 16, None, False),
    ("udp", "dstport", "set_destination_port", 1, 16, 16, None, False),
    ("udp", "len", "set_length", 2, 32, 16, None, False),
    ("udp", "checksum", "set_checksum", 3, 48, 16, None, False),
    ("tcp", "srcport", "set_source_port", 0, 0, 16, None, False),
    ("tcp", "dstport", "set_destination_port", 1, 16, 16, None, False),
    ("tcp", "seq", "set_sequence", 2, 32, 32, None, False),
    ("tcp", "ack", "set_ack", 3, 64, 32, None, False),
    ("tcp", "dataoff", "set_data_off", 4, 96, 4, None, False),
    ("tcp", "winsize", "set_window_size", 5, 112, 16, None, False),
    ("tcp", "checksum", "set_checksum", 7, 128, 16, None, False),
    ("tcp", "urgent", "set_urgent", 8, 144, 16, None, False),
]
QUICK_SETTERS = {("eth", "type"), ("vlan", "id"), ("ipv4", "ttl"), ("ipv4", "fragoff"),
                 ("ipv6", "flowlabel"), ("udp", "len"), ("tcp", "dataoff"), ("tcp", "seq"),
                 # the *other* field of every byte/word that two fields share (added with the fourth wave)
                 ("vlan", "priority"), ("vlan", "dei"), ("ipv4", "flags"), ("ipv4", "dscp"),
                 ("ipv6", "trafficclass")}


def setter_harnesses() -> List[H]:
    out = []
    for (lname, prop, meth, k, bo, w, alias, boolv) in SETTERS:
        ty, hsz, unw = LAYERS[lname]
        al = "MAXF" if alias is None else str(alias)
        tier = "quick" if (lname, prop) in QUICK_SETTERS else "thorough"
        # buffer: header + 4 payload bytes (IPv4: 24 bytes, so IHL 5 and 6 both fit)
        l = hsz + 4
        pin = 0x45 if lname == "ipv4" else -1
        call = (f"set::<{ty}, {l}>(0, Field {{ k: {k}, bo: {bo}, w: {w} }}, {al}, "
                f"|x, v| x.{meth}(v), {str(boolv).lower()}, {pin})")
        out.append(H(f"c17_{lname}_set_{prop}", "C17", tier, call, f"{lname}_set_{prop}",
                     f"{l} buffer bytes, assigned value any i64, 1 symbolic compare index", unwind_of(lname, l, 0), timeout=600))
    # IPv4 setters on a header WITH options (version/IHL byte 0x46, 4 option bytes, 4 payload bytes)
    for (lname, prop, meth, k, bo, w, alias, boolv) in SETTERS:
        if lname != "ipv4":
            continue
        al = "MAXF" if alias is None else str(alias)
        tier = "quick" if prop == "ihl" else "thorough"
        call = (f"set::<Ipv4Packet, 28>(0, Field {{ k: {k}, bo: {bo}, w: {w} }}, {al}, "
                f"|x, v| x.{meth}(v), {str(boolv).lower()}, 0x46)")
        out.append(H(f"c17_ipv4_set_{prop}_b46", "C17", tier, call, f"ipv4_set_{prop}",
                     "28 buffer bytes (byte 0 = 0x46: IHL 6, options present), assigned value any i64, 1 symbolic compare index",
                     unwind_of("ipv4", 28, 0), timeout=600))
    # TCP flags setter under the three RFC readings (any-of, same group rule as C16)
    for alt, ty in TCPW.items():
        wbits = int(alt[3:])
        call = (f"set::<{ty}, 24>(0, Field {{ k: 6, bo: {112 - wbits}, w: {wbits} }}, MAXF, "
                f"|x, v| x.0.set_flags(v), false, -1)")
        out.append(H(f"c17_{alt}_set_flags", "C17", "quick", call, "tcp_set_flags",
                     "24 buffer bytes, assigned value any i64, 1 symbolic compare index", 14,
                     alt_group="tcp_flags_reading", alt=alt, timeout=600))
    return out


def compose_harnesses() -> List[H]:
    """C15 composition through a filled inner cache (two layers; leaf layers udp/tcp have no cache)."""
    out = []
    T = {"eth": "Ethernet", "vlan": "Vlan", "ipv4": "Ipv4Packet", "ipv6": "Ipv6Packet", "udp": "Udp", "tcp": "Tcp"}
    return out


def all_harnesses() -> List[H]:
    hs = layer_harnesses() + setter_harnesses()
    from . import table_ops, table_io
    hs += table_ops.harnesses()
    hs += table_io.harnesses()
    # falsification twins (vacuity guard, thorough tier): one per harness family, same body with a
    # final `assert!(false)` that the solver must report as failing; if it comes back "verified" the
    # family's assumptions are unsatisfiable / its assertions unreachable.
    seen = set()
    twins = []
    for h in sorted(hs, key=lambda x: (not x.required, x.tier != "quick")):   # prefer a required quick member
        key = (h.prop, "_".join(h.family.split("_")[:2]))   # coarse family, e.g. arith_add, eth_set, ipv4_dec
        if key in seen or h.excl_of:
            continue
        seen.add(key)
        twins.append(H(f"twin_{h.name}", h.prop, "thorough", f"{h.call}; assert!(false, \"VERIF-TWIN\")", h.family,
                       h.sym, h.unwind, list(h.stubs), required=False, timeout=h.timeout, twin_of=h.name))
    hs += twins
    names = [h.name for h in hs]
    assert len(names) == len(set(names)), "duplicate harness names"
    return hs
