#!/bin/bash
# usage: seed_confirm.sh <seed-id>   (e.g. C15-1)
# Confirms a seeded change in a scratch worktree of /repo's HEAD (outside /repo and /verif):
#  1. the patch applies, the crate builds and the 184 tests pass with it
#  2. the demonstration fails with it
#  3. the demonstration passes without it
# Writes seeded/<id>/confirm.json. The worktree is removed afterwards.
set -u
id=$1; prop=${id%-*}; n=${id#*-}
S=/verif/seeded/$id
WT=/tmp/seedwt_$id
rm -rf $WT; git -C /repo worktree prune
git -C /repo worktree add -q --detach $WT HEAD || exit 3
cd $WT
# demos refer to their own directory by the absolute path they were written in; recreate it.
# seeded/<id>/origin = "<original out dir> <demo number>" (default: /tmp/seed/<prop>_out <n>)
if [ -f $S/origin ]; then read odir n < $S/origin; else odir=/tmp/seed/${prop}_out; fi
mkdir -p $(dirname $odir); rm -rf $odir; cp -r $S/demo $odir
demo=$odir/demo$n.sh
export CARGO_NET_OFFLINE=true
r_apply=1; r_tests=""; r_demo_with=""; r_demo_without=""
if git apply $S/patch.diff; then r_apply=0; fi
tests=$(cargo test --offline 2>&1 | grep -E "^test result" | head -1)
cargo build --offline >/dev/null 2>&1     # some demos expect target/debug/p2sh to exist already
bash $demo > /tmp/seeddemo_$id.with.log 2>&1; r_demo_with=$?
git checkout -q -- . ; git clean -fdq -e target
cargo build --offline >/dev/null 2>&1
bash $demo > /tmp/seeddemo_$id.without.log 2>&1; r_demo_without=$?
python3 - "$id" "$r_apply" "$tests" "$r_demo_with" "$r_demo_without" <<'PY'
import json,sys
id,ap,tests,w,wo=sys.argv[1:]
ok = ap=="0" and "184 passed; 0 failed" in tests and w!="0" and wo=="0"
json.dump({"seed":id,"patch_applies":ap=="0","tests_with_change":tests,"demo_exit_with_change":int(w),
           "demo_exit_without_change":int(wo),"confirmed":ok,
           "ran":"tools/seed_confirm.sh %s (scratch worktree of /repo HEAD under /tmp, removed afterwards)"%id},
          open(f"/verif/seeded/{id}/confirm.json","w"),indent=1)
print(id, "CONFIRMED" if ok else "NOT-CONFIRMED", ap, tests, w, wo)
PY
cd /; git -C /repo worktree remove --force $WT; rm -rf /tmp/seeddemo_$id.*.log
