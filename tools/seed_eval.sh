#!/bin/bash
# usage: seed_eval.sh <seed-id> [check-id ...]   -- applies seeded/<id>/patch.diff to /repo, runs the
# given checks (default: the seed's own property, quick tier), records the outcome, reverts /repo.
id=$1; shift
prop=${id%-*}
checks=${@:-$prop}
S=/verif/seeded/$id
cd /verif
if [ -n "$(git -C /repo status --porcelain)" ]; then echo "/repo not clean"; exit 3; fi
git -C /repo apply $S/patch.diff || { echo "$id: patch does not apply"; exit 3; }
out=$S/check_output.txt; touch $out
for c in $checks; do
  echo "### ./check $c --tier ${TIER:-quick}${ONLY:+ --only $ONLY} (with $id applied)" >> $out
  ./check $c --tier ${TIER:-quick} --no-evidence ${ONLY:+--only "$ONLY"} >> $out 2>&1
  echo "### exit=$?" >> $out
done
git -C /repo checkout -- .
grep -E "^###|VIOLATION|KNOWN-FINDING|INCONCLUSIVE|harnesses .* discharged" $out | sed "s/^/$id: /"
