#!/bin/bash
# usage: refac_eval.sh <refactor-id> <check ids...> : apply a behaviour-preserving refactoring to /repo,
# run the given quick checks (they must stay silent: exit 0), revert /repo.
id=$1; shift
S=/verif/refactors/$id
cd /verif
if [ -n "$(git -C /repo status --porcelain)" ]; then echo "/repo not clean"; exit 3; fi
git -C /repo apply $S/patch.diff || { echo "$id: patch does not apply"; exit 3; }
( cd /repo && cargo test --offline 2>&1 | grep -E "^test result" | head -1 ) > $S/tests.txt
out=$S/check_output.txt; touch $out
for c in "$@"; do
  echo "### ./check $c --tier quick (with refactoring $id applied)" >> $out
  ./check $c --tier quick --no-evidence >> $out 2>&1
  echo "### exit=$?" >> $out
done
git -C /repo checkout -- .
grep -E "^###|VIOLATION|INCONCLUSIVE" $out | sed "s/^/$id: /" | cut -c1-260
