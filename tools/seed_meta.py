#!/usr/bin/env python3
"""Assemble seeded/<id>/meta.json from the agent's description, my confirmation run and my check runs."""
import json, os, re, sys, glob
root = "/verif/seeded"
rows = []
for d in sorted(glob.glob(root + "/C*-*")):
    sid = os.path.basename(d)
    am = json.load(open(d + "/agent_meta.json")) if os.path.exists(d + "/agent_meta.json") else {}
    cf = json.load(open(d + "/confirm.json")) if os.path.exists(d + "/confirm.json") else {}
    runs = []
    if os.path.exists(d + "/check_output.txt"):
        txt = open(d + "/check_output.txt").read()
        for blk in txt.split("### ./check ")[1:]:
            cid = blk.split()[0]
            ex = re.search(r"### exit=(\d+)", blk)
            viol = re.findall(r"^\[\w+\] (.*?) \((?:reproduces natively|native)", blk, re.M)
            vl = re.findall(r"^VIOLATION .*", blk, re.M)
            runs.append({"check": cid, "tier": "quick", "exit": int(ex.group(1)) if ex else None,
                         "violation_lines": len(vl), "what_fired": sorted(set(viol))[:8]})
    caught = any(r["exit"] == 1 for r in runs)
    extra = {}
    if os.path.exists(d + "/verdict.json"):
        extra = json.load(open(d + "/verdict.json"))
    meta = {"seed": sid, "breaks_property": am.get("property", sid.split("-")[0]),
            "summary": am.get("summary"), "needs_to_manifest": am.get("needs"), "files": am.get("files"),
            "source": "written by an independent sub-agent that saw only the property text and a scratch worktree",
            "rebased": am.get("rebased"),
            "confirmed_by_me": cf, "check_runs": runs, "caught": caught, **extra}
    json.dump(meta, open(d + "/meta.json", "w"), indent=1)
    rows.append((sid, caught, [(r["check"], r["exit"]) for r in runs]))
for r in rows:
    print(*r)
