#!/bin/bash
# usage: seed_import_w4.sh <P> <k> <new-id>   -- import change k of wave-4 agent output /tmp/w4/<P>_out as seeded/<new-id>
P=$1; k=$2; id=$3
O=/tmp/w4/${P}_out; S=/verif/seeded/$id
mkdir -p $S/demo
cp $O/patch$k.diff $S/patch.diff
for f in $O/*; do case "$f" in *.diff|*/meta.json) ;; *) cp -r $f $S/demo/;; esac; done
echo "$O $k" > $S/origin
python3 - "$O/meta.json" "$k" "$S/agent_meta.json" <<'PY'
import json,sys
m=json.load(open(sys.argv[1])); k=int(sys.argv[2])
e=[x for x in m if int(x.get("k",-1))==k][0]
json.dump(e,open(sys.argv[3],"w"),indent=1)
PY
echo imported $id
