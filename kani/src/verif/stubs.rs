//! Stubs applied with `#[kani::stub(..)]`. Each one is part of the claim (listed in the evidence).

/// `format!` builds diagnostics on error paths; message text is not the subject of any claimed
/// property. Replaced by "returns an empty string".
pub fn format_stub(_args: std::fmt::Arguments<'_>) -> String {
    String::new()
}
