//! Stubs applied with `#[kani::stub(..)]`. Each one is part of the claim (listed in the evidence).

/// `format!` builds diagnostics on error paths; message text is not the subject of any claimed
/// property. Replaced by "returns an empty string".
pub fn format_stub(_args: std::fmt::Arguments<'_>) -> String {
    String::new()
}

/// `HashMap::default()` seeds its hasher from the OS (thread-local keys, getrandom: a foreign
/// function). Replaced by fixed keys; hash *values* are never asserted on.
pub fn random_state_stub() -> std::hash::RandomState {
    unsafe { std::mem::transmute::<(u64, u64), std::hash::RandomState>((0x0706050403020100, 0x0f0e0d0c0b0a0908)) }
}
