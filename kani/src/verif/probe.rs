// scratch harnesses for feasibility probes (normally empty)
