#![allow(unused_imports)]
use super::layers::*;
use super::ops::*;
use super::pcapio::*;
#[cfg(kani)] #[kani::proof] #[kani::unwind(5)] #[kani::stub(std::fmt::format, crate::verif::stubs::format_stub)]
fn probe_read_b() { read_prefix::<2>(0) }
#[cfg(kani)] #[kani::proof] #[kani::unwind(5)] #[kani::stub(std::fmt::format, crate::verif::stubs::format_stub)]
fn probe_read_c() { read_prefix::<2>(2) }
#[cfg(kani)] #[kani::proof] #[kani::unwind(6)] #[kani::stub(std::fmt::format, crate::verif::stubs::format_stub)]
fn probe_read_d() { read_prefix::<3>(0) }
