//! Generic harness bodies for the six protocol layers (C15 serialise∘parse = id, C16 field decode,
//! C17 setters). Shape (buffer length L, header offset `off`) is concrete per stamp; every byte of
//! the buffer and every assigned value is symbolic.
//!
//! Oracles are written from the standards on the raw byte array, independent of the code under test.

use std::rc::Rc;

use super::sym;
use crate::builtins::protocols::error::PacketError;
use crate::builtins::protocols::ethernet::Ethernet;
use crate::builtins::protocols::ipv4::Ipv4Packet;
use crate::builtins::protocols::ipv6::Ipv6Packet;
use crate::builtins::protocols::tcp::Tcp;
use crate::builtins::protocols::udp::Udp;
use crate::builtins::protocols::vlan::Vlan;
use crate::object::Object;
use crate::vcover;

pub const MAXF: usize = 12;

/// Integer payload of a getter result. The `Rc` is leaked on purpose: dropping a unique
/// `Rc<Object>` makes CBMC expand the destructor of all 23 variants (DESIGN 2.1 "Drop glue").
pub fn int_of(o: Rc<Object>) -> i64 {
    let v = match &*o {
        Object::Integer(v) => *v,
        Object::Bool(b) => *b as i64,
        _ => panic!("VERIF: getter did not return an Integer/Bool object"),
    };
    std::mem::forget(o);
    v
}

pub fn be16(raw: &[u8], i: usize) -> i64 {
    (((raw[i] as u16) << 8) | raw[i + 1] as u16) as i64
}
pub fn be32(raw: &[u8], i: usize) -> i64 {
    (((raw[i] as u32) << 24)
        | ((raw[i + 1] as u32) << 16)
        | ((raw[i + 2] as u32) << 8)
        | raw[i + 3] as u32) as i64
}

/// One protocol layer of the real code, seen through a uniform interface.
pub trait Layer: Sized {
    const NAME: &'static str;
    /// fixed header size the parser insists on
    const H: usize;
    /// number of numeric properties in `snap`
    const N: usize;
    fn parse(raw: Rc<Vec<u8>>, off: usize) -> Result<Self, PacketError>;
    /// all numeric getters, in a fixed order
    fn snap(&self) -> [i64; MAXF];
    /// the same properties computed from the raw bytes by the standard's layout
    fn reference(raw: &[u8], off: usize) -> [i64; MAXF];
    fn ser(&self) -> Vec<u8>;
    /// payload start as used by the `payload` property and by the serialiser
    fn payload_off(&self) -> usize;
    /// payload start according to the standard (None: any value accepted, see DESIGN C16)
    fn ref_payload_off(raw: &[u8], off: usize) -> Option<usize>;
    /// minimal number of bytes from `off` for a successful parse, per the standard's length field
    fn ref_need(raw: &[u8], off: usize) -> usize {
        let _ = (raw, off);
        Self::H
    }
    /// false when the header's own length field is invalid per the standard (IPv4 IHL < 5, TCP data
    /// offset < 5): the standards define no decoding for such a header, so the check accepts both
    /// "parsed leniently" and "rejected with an error object" (but never a panic).
    fn ref_valid(raw: &[u8], off: usize) -> bool {
        let _ = (raw, off);
        true
    }
    /// snap() index of the property that determines the header length (IPv4 ihl, TCP dataoff);
    /// MAXF when the header has a fixed size. Assigning it may make a short buffer un-parsable.
    const LEN_FIELD: usize = MAXF;
    fn leak(self) {
        std::mem::forget(self)
    }
}

// ------------------------------------------------------------------------------------------------
impl Layer for Ethernet {
    const NAME: &'static str = "eth";
    const H: usize = 14;
    const N: usize = 2;
    fn parse(raw: Rc<Vec<u8>>, off: usize) -> Result<Self, PacketError> {
        Ethernet::from_bytes(raw, off)
    }
    fn snap(&self) -> [i64; MAXF] {
        let mut s = [0i64; MAXF];
        s[0] = int_of(self.get_ethertype());
        s[1] = self.get_ethertype_raw().0 as i64;
        s
    }
    fn reference(raw: &[u8], off: usize) -> [i64; MAXF] {
        let mut s = [0i64; MAXF];
        s[0] = be16(raw, off + 12);
        s[1] = s[0];
        s
    }
    fn ser(&self) -> Vec<u8> {
        self.into()
    }
    fn payload_off(&self) -> usize {
        self.offset
    }
    fn ref_payload_off(_raw: &[u8], off: usize) -> Option<usize> {
        Some(off + 14)
    }
}

impl Layer for Vlan {
    const NAME: &'static str = "vlan";
    const H: usize = 4;
    const N: usize = 5;
    fn parse(raw: Rc<Vec<u8>>, off: usize) -> Result<Self, PacketError> {
        Vlan::from_bytes(raw, off)
    }
    fn snap(&self) -> [i64; MAXF] {
        let mut s = [0i64; MAXF];
        s[0] = int_of(self.get_priority());
        s[1] = int_of(self.get_dei());
        s[2] = int_of(self.get_vlan_id());
        s[3] = int_of(self.get_ethertype());
        s[4] = self.get_ethertype_raw().0 as i64;
        s
    }
    fn reference(raw: &[u8], off: usize) -> [i64; MAXF] {
        let mut s = [0i64; MAXF];
        s[0] = (raw[off] >> 5) as i64; // PCP, 3 bits
        s[1] = ((raw[off] >> 4) & 1) as i64; // DEI
        s[2] = be16(raw, off) & 0x0FFF; // VID, 12 bits
        s[3] = be16(raw, off + 2);
        s[4] = s[3];
        s
    }
    fn ser(&self) -> Vec<u8> {
        self.into()
    }
    fn payload_off(&self) -> usize {
        self.offset
    }
    fn ref_payload_off(_raw: &[u8], off: usize) -> Option<usize> {
        Some(off + 4)
    }
}

impl Layer for Ipv4Packet {
    const NAME: &'static str = "ipv4";
    const H: usize = 20;
    const N: usize = 12;
    const LEN_FIELD: usize = 1;
    fn parse(raw: Rc<Vec<u8>>, off: usize) -> Result<Self, PacketError> {
        Ipv4Packet::from_bytes(raw, off)
    }
    fn snap(&self) -> [i64; MAXF] {
        let mut s = [0i64; MAXF];
        s[0] = int_of(self.get_version());
        s[1] = int_of(self.get_ihl());
        s[2] = int_of(self.get_dscp());
        s[3] = int_of(self.get_ecn());
        s[4] = int_of(self.get_total_length());
        s[5] = int_of(self.get_identification());
        s[6] = int_of(self.get_flags());
        s[7] = int_of(self.get_fragment_offset());
        s[8] = int_of(self.get_ttl());
        s[9] = int_of(self.get_protocol());
        s[10] = int_of(self.get_checksum());
        s[11] = self.get_protocol_raw().0 as i64;
        s
    }
    fn reference(raw: &[u8], off: usize) -> [i64; MAXF] {
        // RFC 791 section 3.1
        let mut s = [0i64; MAXF];
        s[0] = (raw[off] >> 4) as i64;
        s[1] = (raw[off] & 0x0F) as i64;
        s[2] = (raw[off + 1] >> 2) as i64;
        s[3] = (raw[off + 1] & 3) as i64;
        s[4] = be16(raw, off + 2);
        s[5] = be16(raw, off + 4);
        s[6] = (raw[off + 6] >> 5) as i64;
        s[7] = be16(raw, off + 6) & 0x1FFF;
        s[8] = raw[off + 8] as i64;
        s[9] = raw[off + 9] as i64;
        s[10] = be16(raw, off + 10);
        s[11] = s[9];
        s
    }
    fn ser(&self) -> Vec<u8> {
        self.into()
    }
    fn payload_off(&self) -> usize {
        self.offset
    }
    fn ref_payload_off(raw: &[u8], off: usize) -> Option<usize> {
        let ihl = (raw[off] & 0x0F) as usize;
        if ihl >= 5 {
            Some(off + 4 * ihl)
        } else {
            // IHL < 5 is not a valid header; RFC 791 gives no payload position for it.
            None
        }
    }
    fn ref_need(raw: &[u8], off: usize) -> usize {
        let ihl = (raw[off] & 0x0F) as usize;
        if ihl >= 5 {
            4 * ihl
        } else {
            20
        }
    }
    fn ref_valid(raw: &[u8], off: usize) -> bool {
        (raw[off] & 0x0F) >= 5
    }
}

impl Layer for Ipv6Packet {
    const NAME: &'static str = "ipv6";
    const H: usize = 40;
    const N: usize = 7;
    fn parse(raw: Rc<Vec<u8>>, off: usize) -> Result<Self, PacketError> {
        Ipv6Packet::from_bytes(raw, off)
    }
    fn snap(&self) -> [i64; MAXF] {
        let mut s = [0i64; MAXF];
        s[0] = int_of(self.get_version());
        s[1] = int_of(self.get_traffic_class());
        s[2] = int_of(self.get_flow_label());
        s[3] = int_of(self.get_payload_length());
        s[4] = int_of(self.get_next_header());
        s[5] = int_of(self.get_hop_limit());
        s[6] = self.get_next_header_raw().0 as i64;
        s
    }
    fn reference(raw: &[u8], off: usize) -> [i64; MAXF] {
        // RFC 8200 section 3
        let mut s = [0i64; MAXF];
        let w = be32(raw, off);
        s[0] = (w >> 28) & 0xF;
        s[1] = (w >> 20) & 0xFF;
        s[2] = w & 0xFFFFF;
        s[3] = be16(raw, off + 4);
        s[4] = raw[off + 6] as i64;
        s[5] = raw[off + 7] as i64;
        s[6] = s[4];
        s
    }
    fn ser(&self) -> Vec<u8> {
        self.into()
    }
    fn payload_off(&self) -> usize {
        self.offset
    }
    fn ref_payload_off(_raw: &[u8], off: usize) -> Option<usize> {
        Some(off + 40)
    }
}

impl Layer for Udp {
    const NAME: &'static str = "udp";
    const H: usize = 8;
    const N: usize = 4;
    fn parse(raw: Rc<Vec<u8>>, off: usize) -> Result<Self, PacketError> {
        Udp::from_bytes(raw, off)
    }
    fn snap(&self) -> [i64; MAXF] {
        let mut s = [0i64; MAXF];
        s[0] = int_of(self.get_source_port());
        s[1] = int_of(self.get_destination_port());
        s[2] = int_of(self.get_length());
        s[3] = int_of(self.get_checksum());
        s
    }
    fn reference(raw: &[u8], off: usize) -> [i64; MAXF] {
        let mut s = [0i64; MAXF];
        s[0] = be16(raw, off);
        s[1] = be16(raw, off + 2);
        s[2] = be16(raw, off + 4);
        s[3] = be16(raw, off + 6);
        s
    }
    fn ser(&self) -> Vec<u8> {
        self.into()
    }
    fn payload_off(&self) -> usize {
        self.offset
    }
    fn ref_payload_off(_raw: &[u8], off: usize) -> Option<usize> {
        Some(off + 8)
    }
}

/// TCP. Index 6 (`flags`) is compared separately, because RFC 9293 leaves room for three readings
/// of "the flags" (8 control bits, 9 with the historic NS bit, or all 12 bits after the data
/// offset). `reference` fills index 6 with 0 and `snap` does too; see `tcp_flags`.
impl Layer for Tcp {
    const NAME: &'static str = "tcp";
    const H: usize = 20;
    const N: usize = 9;
    const LEN_FIELD: usize = 4;
    fn parse(raw: Rc<Vec<u8>>, off: usize) -> Result<Self, PacketError> {
        Tcp::from_bytes(raw, off)
    }
    fn snap(&self) -> [i64; MAXF] {
        let mut s = [0i64; MAXF];
        s[0] = int_of(self.get_source_port());
        s[1] = int_of(self.get_destination_port());
        s[2] = int_of(self.get_sequence());
        s[3] = int_of(self.get_ack());
        s[4] = int_of(self.get_data_off());
        s[5] = int_of(self.get_window_size());
        s[6] = 0;
        s[7] = int_of(self.get_checksum());
        s[8] = int_of(self.get_urgent());
        s
    }
    fn reference(raw: &[u8], off: usize) -> [i64; MAXF] {
        // RFC 9293 section 3.1
        let mut s = [0i64; MAXF];
        s[0] = be16(raw, off);
        s[1] = be16(raw, off + 2);
        s[2] = be32(raw, off + 4);
        s[3] = be32(raw, off + 8);
        s[4] = (raw[off + 12] >> 4) as i64;
        s[5] = be16(raw, off + 14);
        s[6] = 0;
        s[7] = be16(raw, off + 16);
        s[8] = be16(raw, off + 18);
        s
    }
    fn ser(&self) -> Vec<u8> {
        self.into()
    }
    fn payload_off(&self) -> usize {
        self.offset
    }
    fn ref_payload_off(raw: &[u8], off: usize) -> Option<usize> {
        let d = (raw[off + 12] >> 4) as usize;
        if d >= 5 {
            Some(off + 4 * d)
        } else {
            // data offset < 5 is not a valid header; RFC 9293 gives no payload position for it
            None
        }
    }
    fn ref_need(raw: &[u8], off: usize) -> usize {
        // header incl. options as announced by the data offset (only readable when the fixed
        // header is there; callers check L >= off + H first)
        let d = (raw[off + 12] >> 4) as usize;
        if d >= 5 {
            4 * d
        } else {
            20
        }
    }
    fn ref_valid(raw: &[u8], off: usize) -> bool {
        (raw[off + 12] >> 4) >= 5
    }
}

/// TCP with the `flags` property included, under one fixed RFC reading of W bits (8, 9 or 12).
pub struct TcpW<const W: u32>(pub Tcp);
impl<const W: u32> Layer for TcpW<W> {
    const NAME: &'static str = "tcp";
    const H: usize = 20;
    const N: usize = 9;
    const LEN_FIELD: usize = 4;
    fn ref_need(raw: &[u8], off: usize) -> usize {
        Tcp::ref_need(raw, off)
    }
    fn ref_valid(raw: &[u8], off: usize) -> bool {
        Tcp::ref_valid(raw, off)
    }
    fn parse(raw: Rc<Vec<u8>>, off: usize) -> Result<Self, PacketError> {
        Tcp::from_bytes(raw, off).map(TcpW)
    }
    fn snap(&self) -> [i64; MAXF] {
        let mut s = self.0.snap();
        s[6] = int_of(self.0.get_flags());
        s
    }
    fn reference(raw: &[u8], off: usize) -> [i64; MAXF] {
        let mut s = Tcp::reference(raw, off);
        s[6] = tcp_flags_ref(raw, off, W);
        s
    }
    fn ser(&self) -> Vec<u8> {
        (&self.0).into()
    }
    fn payload_off(&self) -> usize {
        self.0.offset
    }
    fn ref_payload_off(raw: &[u8], off: usize) -> Option<usize> {
        Tcp::ref_payload_off(raw, off)
    }
}

/// The three RFC-consistent readings of TCP "flags" (DESIGN C16). `which`: 8, 9 or 12 bits.
pub fn tcp_flags_ref(raw: &[u8], off: usize, which: u32) -> i64 {
    be16(raw, off + 12) & ((1i64 << which) - 1)
}

/// L symbolic bytes. pin0 >= 0: the first header byte is made concrete (used for IPv4, whose
/// version/IHL byte determines the header length: with it symbolic the options vector has a
/// symbolic length and CBMC does not finish; the stamps enumerate the IHL values instead).
pub fn pinned<const L: usize>(off: usize, pin0: i32) -> [u8; L] {
    let mut raw: [u8; L] = sym::bytes::<L>();
    if pin0 >= 0 && off < L {
        raw[off] = pin0 as u8;
    }
    raw
}

// ------------------------------------------------------------------------------------------------
// C16: decode. For every buffer of length L: parse succeeds exactly when the header fits, never
// panics, and every numeric getter equals the standard's bit-field.
// `check_payload`: also compare the payload offset with the standard's (separate harness family
// so that a payload-offset finding and a field finding have different roles).
pub fn dec<X: Layer, const L: usize>(off: usize, pin0: i32) {
    let raw: [u8; L] = pinned::<L>(off, pin0);
    let rc = Rc::new(raw.to_vec());
    let keep = rc.clone();
    match X::parse(rc, off) {
        Ok(x) => {
            vcover!(true, "parse ok");
            assert!(L >= off + X::H, "VERIF: parse accepted a buffer shorter than the header");
            let got = x.snap();
            let want = X::reference(&raw, off);
            let mut k = 0;
            while k < MAXF {
                if k < X::N {
                    assert!(got[k] == want[k], "VERIF: getter differs from the standard's field");
                }
                k += 1;
            }
            x.leak();
        }
        Err(e) => {
            vcover!(true, "parse err");
            // truncated: shorter than the fixed header, or shorter than the header length the
            // packet itself announces (IPv4 IHL).
            // (ref_need reads the length field, which exists only if the fixed header does)
            if L >= off + X::H {
                assert!(
                    !X::ref_valid(&raw, off) || L < off + X::ref_need(&raw, off),
                    "VERIF: parse rejected a buffer that holds a complete header"
                );
            }
            std::mem::forget(e);
        }
    }
    std::mem::forget(keep);
    vcover!(true, "end reached");
}

/// C16: payload offset (what the `payload` property skips) vs the standard's header length.
pub fn payoff<X: Layer, const L: usize>(off: usize, pin0: i32) {
    let raw: [u8; L] = pinned::<L>(off, pin0);
    let rc = Rc::new(raw.to_vec());
    let keep = rc.clone();
    if let Ok(x) = X::parse(rc, off) {
        vcover!(true, "parse ok");
        if let Some(want) = X::ref_payload_off(&raw, off) {
            assert!(x.payload_off() == want, "VERIF: payload offset differs from the header length field");
        }
        assert!(x.payload_off() <= L, "VERIF: payload offset beyond the buffer");
        x.leak();
    }
    std::mem::forget(keep);
    vcover!(true, "end reached");
}

// ------------------------------------------------------------------------------------------------
// C15 lemma SER(X): for every buffer, if the layer parses then serialising it (inner cache empty)
// gives back raw[off..] exactly; the header part ends at the layer's payload offset.
pub fn ser<X: Layer, const L: usize>(off: usize, pin0: i32) {
    let raw: [u8; L] = pinned::<L>(off, pin0);
    let rc = Rc::new(raw.to_vec());
    let keep = rc.clone();
    if let Ok(x) = X::parse(rc, off) {
        vcover!(true, "parse ok");
        let out = x.ser();
        assert!(out.len() == L - off, "VERIF: serialised length differs from the captured length");
        let i = sym::usize_();
        sym::assume(i < L - off);
        sym::assume(i < out.len());
        assert!(out[i] == raw[off + i], "VERIF: serialised byte differs from the captured byte");
        std::mem::forget(out);
        x.leak();
    }
    std::mem::forget(keep);
    vcover!(true, "end reached");
}

// ------------------------------------------------------------------------------------------------
// C17: one setter, from an arbitrary header state.
//
// Field description: `k` = index in snap(), `bo`/`w` = bit offset (MSB first from the first header
// byte) and width of the field in the wire format.
#[derive(Clone, Copy)]
pub struct Field {
    pub k: usize,
    pub bo: usize,
    pub w: usize,
}

fn field_mask(f: Field, byte: usize) -> u8 {
    let mut m = 0u8;
    let mut b = 0;
    while b < 8 {
        let pos = byte * 8 + b;
        if pos >= f.bo && pos < f.bo + f.w {
            m |= 0x80u8 >> b;
        }
        b += 1;
    }
    m
}

/// `alias`: snap index that mirrors field k (e.g. ethertype / ethertype_raw), or MAXF.
pub fn set<X: Layer, const L: usize>(
    off: usize,
    f: Field,
    alias: usize,
    setter: impl Fn(&X, Rc<Object>) -> Result<(), String>,
    bool_valued: bool,
    pin0: i32,
) {
    let raw: [u8; L] = pinned::<L>(off, pin0);
    let rc = Rc::new(raw.to_vec());
    let keep = rc.clone();
    let x = match X::parse(rc, off) {
        Ok(x) => x,
        Err(_) => {
            sym::assume(false);
            unreachable!()
        }
    };
    let before = x.snap();
    let before_po = x.payload_off();
    let v: i64 = sym::i64_();
    let arg = if bool_valued {
        sym::assume(v == 0 || v == 1);
        Rc::new(Object::Bool(v == 1))
    } else {
        Rc::new(Object::Integer(v))
    };
    let arg_keep = arg.clone();
    let fmask: i64 = if f.w >= 63 { -1 } else { (1i64 << f.w) - 1 };
    let in_range = v >= 0 && v <= fmask;
    let res = setter(&x, arg);
    let after = x.snap();
    let out = x.ser();
    assert!(out.len() == L - off, "VERIF: serialised length differs from the captured length after assignment");
    let i = sym::usize_();
    sym::assume(i < out.len() && i < L - off);
    match res {
        Ok(()) => {
            vcover!(in_range, "setter accepted an in-range value");
            vcover!(!in_range, "setter accepted an out-of-range value");
            // stored value: v itself when in range, else v reduced to the field width
            let want = v & fmask;
            assert!(after[f.k] == want, "VERIF: read-back after assignment differs from the value assigned");
            let mut k = 0;
            while k < MAXF {
                if k < X::N && k != f.k && k != alias {
                    assert!(after[k] == before[k], "VERIF: assignment changed another property");
                }
                k += 1;
            }
            assert!(x.payload_off() == before_po, "VERIF: assignment moved the payload");
            // bytes differ from the original only inside the field's bit range
            let d = out[i] ^ raw[off + i];
            let m = if i < X::H { field_mask(f, i) } else { 0 };
            assert!(d & !m == 0, "VERIF: serialised bytes changed outside the assigned field");
            // serialise -> re-parse -> read back
            let rc2 = Rc::new(out);
            let keep2 = rc2.clone();
            match X::parse(rc2, 0) {
                Ok(y) => {
                    let re = y.snap();
                    assert!(re[f.k] == want, "VERIF: value lost after serialise and re-parse");
                    let mut k = 0;
                    while k < MAXF {
                        if k < X::N && k != f.k && k != alias {
                            assert!(re[k] == before[k], "VERIF: another property differs after serialise and re-parse");
                        }
                        k += 1;
                    }
                    y.leak();
                }
                Err(e) => {
                    // only legitimate when the assigned value itself lengthens the header beyond
                    // the buffer (IPv4 IHL, TCP data offset); everything else must re-parse
                    assert!(f.k == X::LEN_FIELD && 4 * (want as usize) > L - off, "VERIF: packet does not re-parse after assignment");
                    std::mem::forget(e);
                }
            }
            std::mem::forget(keep2);
        }
        Err(e) => {
            vcover!(true, "setter rejected the value");
            assert!(!in_range, "VERIF: setter rejected an in-range value");
            let mut k = 0;
            while k < MAXF {
                if k < X::N {
                    assert!(after[k] == before[k], "VERIF: rejected assignment changed the packet");
                }
                k += 1;
            }
            assert!(out[i] == raw[off + i], "VERIF: rejected assignment changed the serialised bytes");
            std::mem::forget(out);
            std::mem::forget(e);
        }
    }
    std::mem::forget(arg_keep);
    std::mem::forget(keep);
    x.leak();
    vcover!(true, "end reached");
}

// ------------------------------------------------------------------------------------------------
// C15 composition: what a layer serialises to once its `inner` cache has been filled by a property
// read (pktprop.rs stores `Y::from_bytes(x.rawdata, x.offset)` wrapped in the matching Object
// variant, or an error object when that parse fails).

pub trait HasInner: Layer {
    fn set_inner(&self, o: Rc<Object>);
    fn wrap(self) -> Object;
}
macro_rules! has_inner {
    ($t:ty, $v:ident) => {
        impl HasInner for $t {
            fn set_inner(&self, o: Rc<Object>) {
                // first fill of an empty cache: the replaced value is None (nothing is dropped)
                let old = self.inner.replace(Some(o));
                std::mem::forget(old);
            }
            fn wrap(self) -> Object {
                Object::$v(Rc::new(self))
            }
        }
    };
}
has_inner!(Ethernet, Eth);
has_inner!(Vlan, Vlan);
has_inner!(Ipv4Packet, Ipv4);
has_inner!(Ipv6Packet, Ipv6);

/// Outer layer X at `off`, inner layer Y parsed where X's payload starts (as pktprop.rs does) and
/// cached in X. Serialising X must still give raw[off..]. The stamp's length is chosen so that Y
/// parses; a failing parse ends the path (no Ok/Err merge: after a merge CBMC no longer knows which
/// variant the cached object is and unwinds Object -> Vec<u8> through every packet kind).
pub fn compose_ok<X: HasInner, Y: HasInner, const L: usize>(off: usize) {
    let raw: [u8; L] = sym::bytes::<L>();
    let rc = Rc::new(raw.to_vec());
    let keep = rc.clone();
    let x = match X::parse(rc.clone(), off) {
        Ok(x) => x,
        Err(_) => {
            sym::assume(false);
            unreachable!()
        }
    };
    let y = match Y::parse(rc.clone(), x.payload_off()) {
        Ok(y) => y,
        Err(_) => {
            sym::assume(false);
            unreachable!()
        }
    };
    let inner = Rc::new(y.wrap());
    let inner_keep = inner.clone();
    x.set_inner(inner);
    let out = x.ser();
    assert!(out.len() == L - off, "VERIF: serialised length differs from the captured length (inner layer cached)");
    let i = sym::usize_();
    sym::assume(i < L - off && i < out.len());
    assert!(out[i] == raw[off + i], "VERIF: serialised byte differs from the captured byte (inner layer cached)");
    std::mem::forget(out);
    std::mem::forget(inner_keep);
    x.leak();
    std::mem::forget(keep);
    vcover!(true, "end reached");
}

/// Outer layer X whose inner layer was too short to parse: pktprop.rs caches an error object.
/// Serialising X must still give raw[off..] (the frame's tail must not be lost).
pub fn compose_err<X: HasInner, const L: usize>(off: usize) {
    use crate::object::error::ErrorObj;
    let raw: [u8; L] = sym::bytes::<L>();
    let rc = Rc::new(raw.to_vec());
    let keep = rc.clone();
    let x = match X::parse(rc, off) {
        Ok(x) => x,
        Err(_) => {
            sym::assume(false);
            unreachable!()
        }
    };
    let inner = Rc::new(Object::Err(ErrorObj::Packet(PacketError::InvalidLength(L))));
    let inner_keep = inner.clone();
    x.set_inner(inner);
    let out = x.ser();
    assert!(out.len() == L - off, "VERIF: frame tail lost: serialised length differs once an error object is cached as inner layer");
    let i = sym::usize_();
    sym::assume(i < L - off && i < out.len());
    assert!(out[i] == raw[off + i], "VERIF: serialised byte differs from the captured byte (error object cached)");
    std::mem::forget(out);
    std::mem::forget(inner_keep);
    x.leak();
    std::mem::forget(keep);
    vcover!(true, "end reached");
}
