//! Source of symbolic values. Under Kani every function is `kani::any()`; in a native build the
//! same harness body replays the bytes of a solver counterexample (flat byte stream, consumed in
//! `any()` call order, little endian, as printed by Kani's concrete playback).

#[cfg(not(kani))]
mod native {
    use std::cell::RefCell;
    thread_local! {
        pub static STREAM: RefCell<(Vec<u8>, usize)> = RefCell::new((Vec::new(), 0));
    }
    pub fn load(bytes: Vec<u8>) {
        STREAM.with(|s| *s.borrow_mut() = (bytes, 0));
    }
    pub fn take<const N: usize>() -> [u8; N] {
        STREAM.with(|s| {
            let mut s = s.borrow_mut();
            let mut out = [0u8; N];
            for o in out.iter_mut() {
                // running out of recorded bytes: pad with zero (Kani omits nothing, but be total)
                *o = if s.1 < s.0.len() { s.0[s.1] } else { 0 };
                s.1 += 1;
            }
            out
        })
    }
    pub fn consumed() -> (usize, usize) {
        STREAM.with(|s| {
            let s = s.borrow();
            (s.1, s.0.len())
        })
    }
}
#[cfg(not(kani))]
pub use native::{consumed, load};

macro_rules! prim {
    ($name:ident, $t:ty, $n:expr) => {
        #[cfg(kani)]
        #[inline(always)]
        pub fn $name() -> $t {
            kani::any()
        }
        #[cfg(not(kani))]
        pub fn $name() -> $t {
            <$t>::from_le_bytes(native::take::<$n>())
        }
    };
}
prim!(u8_, u8, 1);
prim!(u16_, u16, 2);
prim!(u32_, u32, 4);
prim!(i64_, i64, 8);
prim!(u64_, u64, 8);
prim!(usize_, usize, 8);

#[cfg(kani)]
#[inline(always)]
pub fn bool_() -> bool {
    kani::any()
}
#[cfg(not(kani))]
pub fn bool_() -> bool {
    native::take::<1>()[0] & 1 == 1
}

/// f64 from 64 symbolic bits (so every NaN payload, subnormal, +-0, +-inf is included).
pub fn f64_() -> f64 {
    f64::from_bits(u64_())
}

/// Any valid `char` (assumes the scalar-value validity predicate, nothing else).
pub fn char_() -> char {
    let v = u32_();
    assume(v < 0xD800 || (v > 0xDFFF && v <= 0x10FFFF));
    match char::from_u32(v) {
        Some(c) => c,
        None => unreachable!(),
    }
}

#[cfg(kani)]
#[inline(always)]
pub fn bytes<const L: usize>() -> [u8; L] {
    kani::any()
}
#[cfg(not(kani))]
pub fn bytes<const L: usize>() -> [u8; L] {
    native::take::<L>()
}

#[cfg(kani)]
#[inline(always)]
pub fn assume(c: bool) {
    kani::assume(c)
}
/// Native replay: a violated assumption means the recorded bytes do not belong to this harness
/// (or the byte-stream layout was mis-parsed). That is an inconclusive replay, not a reproduction.
#[cfg(not(kani))]
pub fn assume(c: bool) {
    if !c {
        // caught by the replay driver (mod.rs): counts as "not a reproduction"
        std::panic::panic_any(AssumeFailed);
    }
}
#[cfg(not(kani))]
pub struct AssumeFailed;

/// Reachability witness (vacuity guard). No-op natively.
#[macro_export]
macro_rules! vcover {
    ($c:expr, $m:literal) => {
        #[cfg(kani)]
        kani::cover!($c, $m);
        #[cfg(not(kani))]
        let _ = $c;
    };
}
