//! C06 truthiness, C08/C09 operator implementations, C10 key equality vs hashing.
//! Operand *kinds* are concrete per harness, operand *values* are fully symbolic (64-bit / f64 bits).

use std::hash::{Hash, Hasher};
use std::rc::Rc;

use super::sym;
use crate::object::array::Array;
use crate::object::hmap::HMap;
use crate::object::Object;
use crate::vcover;

/// Operand kinds the VM's arithmetic dispatch lets through (interpreter.rs binary_op).
pub const I: u8 = 0;
pub const F: u8 = 1;
pub const B: u8 = 2;

pub fn num(kind: u8) -> Object {
    match kind {
        I => Object::Integer(sym::i64_()),
        F => Object::Float(sym::f64_()),
        _ => Object::Byte(sym::u8_()),
    }
}

/// Numeric view used by the reference model.
#[derive(Clone, Copy)]
pub enum N {
    I(i64),
    F(f64),
    B(u8),
}
pub fn view(o: &Object) -> N {
    match o {
        Object::Integer(v) => N::I(*v),
        Object::Float(v) => N::F(*v),
        Object::Byte(v) => N::B(*v),
        _ => panic!("VERIF: operator returned a non-numeric object"),
    }
}
fn as_f(n: N) -> f64 {
    match n {
        N::I(v) => v as f64,
        N::F(v) => v,
        N::B(v) => v as f64,
    }
}
fn same(a: N, b: N) -> bool {
    match (a, b) {
        (N::I(x), N::I(y)) => x == y,
        (N::B(x), N::B(y)) => x == y,
        // bit-for-bit, all NaNs identified
        (N::F(x), N::F(y)) => x.to_bits() == y.to_bits() || (x.is_nan() && y.is_nan()),
        _ => false,
    }
}

pub const ADD: u8 = 0;
pub const SUB: u8 = 1;
pub const MUL: u8 = 2;
pub const DIV: u8 = 3;
pub const REM: u8 = 4;

/// Reference numeric model of C09: two's complement modulo 2^64 for integers, modulo 2^8 for
/// bytes, integer/byte mixes are integers, any float operand -> IEEE-754 double arithmetic.
/// None = "must be a runtime error" (integer or byte division / modulo by zero).
pub fn ref_arith(op: u8, a: N, b: N) -> Option<N> {
    fn int(op: u8, x: i64, y: i64) -> Option<N> {
        Some(N::I(match op {
            ADD => x.wrapping_add(y),
            SUB => x.wrapping_sub(y),
            MUL => x.wrapping_mul(y),
            DIV => {
                if y == 0 {
                    return None;
                }
                x.wrapping_div(y)
            }
            _ => {
                if y == 0 {
                    return None;
                }
                x.wrapping_rem(y)
            }
        }))
    }
    match (a, b) {
        (N::I(x), N::I(y)) => int(op, x, y),
        (N::I(x), N::B(y)) => int(op, x, y as i64),
        (N::B(x), N::I(y)) => int(op, x as i64, y),
        (N::B(x), N::B(y)) => Some(N::B(match op {
            ADD => x.wrapping_add(y),
            SUB => x.wrapping_sub(y),
            MUL => x.wrapping_mul(y),
            DIV => {
                if y == 0 {
                    return None;
                }
                x / y
            }
            _ => {
                if y == 0 {
                    return None;
                }
                x % y
            }
        })),
        _ => {
            let (x, y) = (as_f(a), as_f(b));
            Some(N::F(match op {
                ADD => x + y,
                SUB => x - y,
                MUL => x * y,
                DIV => x / y,
                _ => x % y,
            }))
        }
    }
}

fn apply(op: u8, a: &Object, b: &Object) -> Object {
    match op {
        ADD => a + b,
        SUB => a - b,
        MUL => a * b,
        DIV => a / b,
        _ => a % b,
    }
}

/// C08 + C09, arithmetic operator implementations.
/// Precondition (= what `VM::binary_op` lets through, decided separately by the `vmop` harnesses):
/// both operands numeric; the operator closure is not entered with a zero right operand
/// (`is_zero()`), because the VM reports "Division by zero" first.
/// `check_value`: compare with the reference model (C09); otherwise only "no panic" (C08).
pub fn arith(op: u8, ka: u8, kb: u8, check_value: bool) {
    let a = num(ka);
    let b = num(kb);
    if op == DIV || op == REM {
        sym::assume(!b.is_zero());
    }
    let r = apply(op, &a, &b);
    if check_value {
        let want = ref_arith(op, view(&a), view(&b));
        match want {
            Some(w) => {
                if op == ADD || op == MUL {
                    // The reference is also evaluated with the operands commuted: same value, but a
                    // bit-blasting solver cannot prove 64-bit x*y == y*x in reasonable time, and an
                    // implementation is free to multiply in either order (seen with a behaviour-
                    // preserving refactoring that merged the Integer*Byte and Byte*Integer arms).
                    let w2 = match ref_arith(op, view(&b), view(&a)) {
                        Some(x) => x,
                        None => w,
                    };
                    assert!(same(view(&r), w) || same(view(&r), w2), "VERIF: operator result differs from the numeric model");
                } else {
                    assert!(same(view(&r), w), "VERIF: operator result differs from the numeric model");
                }
            }
            None => panic!("VERIF: unreachable, zero divisor was assumed away"),
        }
    }
    std::mem::forget(r);
    vcover!(true, "end reached");
}

/// `Object::is_zero` is what `VM::binary_op` uses to turn `/` and `%` by zero into a runtime error
/// (and what `arith` above assumes about the divisor). It must hold exactly for the numeric zeros:
/// too weak and a zero divisor reaches the operator (crash, C08); too strong and a legal division
/// is reported as "Division by zero" (C09).
pub fn is_zero_spec(k: u8) {
    let a = num(k);
    let want = match view(&a) {
        N::I(v) => v == 0,
        N::F(v) => v == 0.0,
        N::B(v) => v == 0,
    };
    assert!(a.is_zero() == want, "VERIF: is_zero differs from 'is a numeric zero'");
    std::mem::forget(a);
    vcover!(true, "end reached");
}

/// `/` and `%` with a CONCRETE right operand `cr` (per stamp) and a symbolic left operand.
/// The fully symbolic value harnesses for these two operators do not finish under bit-blasting
/// (two divider / fmod circuits; measured 900 s timeouts), and float `%` is outside engine M, so
/// this family is what decides the value of float `%` at all: for each stamped divisor, every
/// dividend of the left kind. An operand swap or a wrong conversion in any arm shows up here.
pub fn arith_cr(op: u8, ka: u8, kb: u8, cr: f64) {
    let a = num(ka);
    let b = match kb {
        I => Object::Integer(cr as i64),
        F => Object::Float(cr),
        _ => Object::Byte(cr as u8),
    };
    sym::assume(!b.is_zero());
    let r = apply(op, &a, &b);
    match ref_arith(op, view(&a), view(&b)) {
        Some(w) => assert!(same(view(&r), w), "VERIF: operator result differs from the numeric model"),
        None => panic!("VERIF: unreachable, the stamped divisor is not zero"),
    }
    std::mem::forget(r);
    vcover!(true, "end reached");
}

pub const AND: u8 = 0;
pub const OR: u8 = 1;
pub const XOR: u8 = 2;
pub const SHL: u8 = 3;
pub const SHR: u8 = 4;

/// Bitwise and shift operators: the VM (`bitwise_op`) admits Integer x Integer only.
pub fn bitwise(op: u8, check_value: bool) {
    let x = sym::i64_();
    let y = sym::i64_();
    let a = Object::Integer(x);
    let b = Object::Integer(y);
    let r = match op {
        AND => &a & &b,
        OR => &a | &b,
        XOR => &a ^ &b,
        SHL => &a << &b,
        _ => &a >> &b,
    };
    if check_value {
        // shift amounts are taken modulo 64; >> is arithmetic
        let amt = (y & 63) as u32;
        let want = match op {
            AND => x & y,
            OR => x | y,
            XOR => x ^ y,
            SHL => ((x as u64) << amt) as i64,
            _ => x >> amt,
        };
        assert!(same(view(&r), N::I(want)), "VERIF: bitwise/shift result differs from the numeric model");
    }
    std::mem::forget(r);
    vcover!(true, "end reached");
}

/// Unary minus: the VM admits Integer | Float (`is_number`).
pub fn neg(k: u8, check_value: bool) {
    let a = num(k);
    let r = -&a;
    if check_value {
        let want = match view(&a) {
            N::I(v) => N::I(v.wrapping_neg()),
            N::F(v) => N::F(-v),
            N::B(_) => unreachable!(),
        };
        assert!(same(view(&r), want), "VERIF: unary minus differs from the numeric model");
    }
    std::mem::forget(r);
    vcover!(true, "end reached");
}

/// Relational operators and `==` over Integer/Float (C09): exact for two integers, as IEEE doubles
/// otherwise, and consistent with `==`.
/// The VM has `>` and `>=` (the compiler swaps operands for `<`, `<=`), applied through
/// `PartialOrd::gt/ge`, plus `==`/`!=` through `PartialEq`.
pub fn relational(ka: u8, kb: u8) {
    let a = num(ka);
    let b = num(kb);
    let gt = &a > &b;
    let ge = &a >= &b;
    let lt = &b > &a; // how `a < b` is compiled
    let le = &b >= &a;
    let eq = a == b;
    let ne = a != b;
    let (wgt, wge, wlt, wle, weq) = match (view(&a), view(&b)) {
        (N::I(x), N::I(y)) => (x > y, x >= y, x < y, x <= y, x == y),
        (p, q) => {
            let (x, y) = (as_f(p), as_f(q));
            (x > y, x >= y, x < y, x <= y, x == y)
        }
    };
    assert!(eq == weq && ne == !weq, "VERIF: == differs from the numeric model");
    assert!(gt == wgt, "VERIF: > differs from the numeric model");
    assert!(ge == wge, "VERIF: >= differs from the numeric model");
    assert!(lt == wlt, "VERIF: < differs from the numeric model");
    assert!(le == wle, "VERIF: <= differs from the numeric model");
    // consistency with == (implied by the model, asserted separately so the finding names it)
    assert!(!eq || (ge && le && !gt && !lt), "VERIF: relational operators inconsistent with ==");
    vcover!(true, "end reached");
}

// ------------------------------------------------------------------------------------------------
// C06 truthiness: Object::is_falsey against the documented table.

pub const T_BOOL: u8 = 0;
pub const T_INT: u8 = 1;
pub const T_FLOAT: u8 = 2;
pub const T_CHAR: u8 = 3;
pub const T_BYTE: u8 = 4;
pub const T_NULL: u8 = 5;

pub fn falsey_scalar(kind: u8) {
    let (o, want) = match kind {
        T_BOOL => {
            let b = sym::bool_();
            (Object::Bool(b), !b)
        }
        T_INT => {
            let v = sym::i64_();
            (Object::Integer(v), v == 0)
        }
        T_FLOAT => {
            let v = sym::f64_();
            // 0.0 and -0.0 are falsey (both == 0.0); NaN is truthy
            (Object::Float(v), v == 0.0)
        }
        T_CHAR => {
            let c = sym::char_();
            (Object::Char(c), c == '\0')
        }
        T_BYTE => {
            let b = sym::u8_();
            (Object::Byte(b), b == 0)
        }
        _ => (Object::Null, true),
    };
    assert!(o.is_falsey() == want, "VERIF: is_falsey differs from the documented truthiness table");
    std::mem::forget(o);
    vcover!(true, "end reached");
}

/// Strings of length 0..=2 (symbolic ASCII bytes): falsey iff empty.
pub fn falsey_str(len: usize) {
    let mut s = String::new();
    let mut i = 0;
    while i < len {
        let b = sym::u8_();
        sym::assume(b < 0x80);
        s.push(b as char);
        i += 1;
    }
    let o = Object::Str(s);
    assert!(o.is_falsey() == (len == 0), "VERIF: is_falsey differs from the documented truthiness table");
    std::mem::forget(o);
    vcover!(true, "end reached");
}

/// Arrays of 0..=2 elements (symbolic integers): falsey iff empty.
pub fn falsey_arr(len: usize) {
    let mut v: Vec<Rc<Object>> = Vec::new();
    let mut i = 0;
    while i < len {
        v.push(Rc::new(Object::Integer(sym::i64_())));
        i += 1;
    }
    let o = Object::Arr(Rc::new(Array::new(v)));
    assert!(o.is_falsey() == (len == 0), "VERIF: is_falsey differs from the documented truthiness table");
    std::mem::forget(o);
    vcover!(true, "end reached");
}

/// Kinds outside the table (error objects, file handles, ...) are truthy.
pub fn falsey_other(which: u8) {
    use crate::object::error::ErrorObj;
    use crate::object::file::FileHandle;
    let o = match which {
        0 => Object::File(Rc::new(FileHandle::Stdin)),
        1 => Object::Return(Rc::new(Object::Null)),
        _ => Object::File(Rc::new(FileHandle::Stdout)),
    };
    assert!(!o.is_falsey(), "VERIF: is_falsey differs from the documented truthiness table");
    std::mem::forget(o);
    vcover!(true, "end reached");
}

// ------------------------------------------------------------------------------------------------
// C10: k1 == k2  =>  identical Hasher write stream (then *every* hasher puts them in one bucket);
// different streams for equal keys => no hasher can be relied on. Plus reflexivity and symmetry.

#[derive(Clone, Copy, PartialEq)]
pub struct Rec {
    n: usize,
    // (tag, value): tag = which Hasher method, value = payload folded to u64
    ev: [(u8, u64); 16],
    overflow: bool,
}
impl Rec {
    pub fn new() -> Self {
        Rec { n: 0, ev: [(0, 0); 16], overflow: false }
    }
    fn rec(&mut self, t: u8, v: u64) {
        if self.n < 16 {
            self.ev[self.n] = (t, v);
            self.n += 1;
        } else {
            self.overflow = true;
        }
    }
}
impl Hasher for Rec {
    fn finish(&self) -> u64 {
        0
    }
    fn write(&mut self, bytes: &[u8]) {
        // strings: one event per byte (length <= 2 in the claimed bound) + a length event
        self.rec(10, bytes.len() as u64);
        let mut i = 0;
        while i < bytes.len() {
            self.rec(11, bytes[i] as u64);
            i += 1;
        }
    }
    fn write_u8(&mut self, i: u8) {
        self.rec(1, i as u64)
    }
    fn write_u16(&mut self, i: u16) {
        self.rec(2, i as u64)
    }
    fn write_u32(&mut self, i: u32) {
        self.rec(3, i as u64)
    }
    fn write_u64(&mut self, i: u64) {
        self.rec(4, i)
    }
    fn write_usize(&mut self, i: usize) {
        self.rec(5, i as u64)
    }
    fn write_i64(&mut self, i: i64) {
        self.rec(4, i as u64) // std's default write_i64 forwards to write_u64: same stream
    }
    fn write_i32(&mut self, i: i32) {
        self.rec(3, i as u32 as u64)
    }
}

pub const K_INT: u8 = 0;
pub const K_FLOAT: u8 = 1;
pub const K_BYTE: u8 = 2;
pub const K_CHAR: u8 = 3;
pub const K_BOOL: u8 = 4;
pub const K_NULL: u8 = 5;
pub const K_STR0: u8 = 6;
pub const K_STR1: u8 = 7;
pub const K_STR2: u8 = 8;
pub const K_BUILTIN: u8 = 9;

fn dummy_builtin(_args: Vec<Rc<Object>>) -> Result<Rc<Object>, String> {
    Ok(Rc::new(Object::Null))
}

pub fn key(kind: u8) -> Object {
    match kind {
        K_INT => Object::Integer(sym::i64_()),
        K_FLOAT => Object::Float(sym::f64_()),
        K_BYTE => Object::Byte(sym::u8_()),
        K_CHAR => Object::Char(sym::char_()),
        K_BOOL => Object::Bool(sym::bool_()),
        K_NULL => Object::Null,
        K_BUILTIN => {
            // a builtin-function key: one of three names (keys compare and hash by name): two of equal
            // length differing in the last byte, and one that has another as a proper prefix
            use crate::object::func::BuiltinFunction;
            let w = sym::u8_();
            sym::assume(w < 3);
            let name = if w == 0 { "get" } else if w == 1 { "ges" } else { "get_errno" };
            Object::Builtin(Rc::new(BuiltinFunction::new(name, dummy_builtin)))
        }
        _ => {
            let len = (kind - K_STR0) as usize;
            let mut s = String::new();
            let mut i = 0;
            while i < len {
                let b = sym::u8_();
                sym::assume(b < 0x80);
                s.push(b as char);
                i += 1;
            }
            Object::Str(s)
        }
    }
}

pub fn ref_key_eq(a: &Object, b: &Object) -> bool {
    match (a, b) {
        (Object::Integer(x), Object::Integer(y)) => *x == *y,
        (Object::Integer(x), Object::Float(y)) => (*x as f64) == *y,
        (Object::Float(x), Object::Integer(y)) => *x == (*y as f64),
        (Object::Float(x), Object::Float(y)) => *x == *y,
        (Object::Byte(x), Object::Byte(y)) => *x == *y,
        (Object::Char(x), Object::Char(y)) => *x == *y,
        (Object::Bool(x), Object::Bool(y)) => *x == *y,
        (Object::Null, Object::Null) => true,
        (Object::Builtin(x), Object::Builtin(y)) => {
            let (p, q) = (x.name.as_bytes(), y.name.as_bytes());
            if p.len() != q.len() {
                false
            } else {
                let mut same = true;
                let mut i = 0;
                while i < p.len() {
                    same &= p[i] == q[i];
                    i += 1;
                }
                same
            }
        }
        (Object::Str(x), Object::Str(y)) => {
            let (p, q) = (x.as_bytes(), y.as_bytes());
            if p.len() != q.len() {
                false
            } else {
                let mut same = true;
                let mut i = 0;
                while i < p.len() {
                    same &= p[i] == q[i];
                    i += 1;
                }
                same
            }
        }
        _ => false,
    }
}

fn stream(o: &Object) -> Rec {
    let mut r = Rec::new();
    o.hash(&mut r);
    r
}

/// `excl_known`: exclude the recorded known-finding regions (see /verif/known_findings.json);
/// used only to tell a *new* violation from a recorded one.
pub fn key_eq_hash(k1: u8, k2: u8) {
    let a = key(k1);
    let b = key(k2);
    assert!(a.is_a_valid_key() && b.is_a_valid_key(), "VERIF: scalar or string rejected as a map key");
    let e = a == b;
    assert!(e == (b == a), "VERIF: == is not symmetric");
    // `==` is the reference the property is stated against; pin it to the language's definition
    // (same-kind value equality, Integer vs Float as doubles, nothing else equal across kinds)
    // Pinned only where the documented semantics leaves no room: two keys of the same kind, and
    // Integer vs Float. Other cross-kind pairs (byte vs integer, char vs string, ...) are not pinned:
    // there the property only demands that lookups agree with whatever == says (eq => same hash).
    let numeric = |k: u8| k == K_INT || k == K_FLOAT;
    let same_kind = k1 == k2 || (k1 >= K_STR0 && k1 <= K_STR2 && k2 >= K_STR0 && k2 <= K_STR2);
    if same_kind || (numeric(k1) && numeric(k2)) {
        assert!(e == ref_key_eq(&a, &b), "VERIF: key equality differs from the language's ==");
    }
    let (ra, rb) = (stream(&a), stream(&b));
    assert!(!ra.overflow && !rb.overflow, "VERIF: recorder overflow (harness bound)");
    if e {
        vcover!(true, "equal keys exist");
        assert!(ra == rb, "VERIF: equal keys hash differently");
    }
    std::mem::forget(a);
    std::mem::forget(b);
    vcover!(true, "end reached");
}

/// Reflexivity: every key except a NaN float equals itself (so it finds its own entry).
pub fn key_refl(k: u8) {
    let a = key(k);
    let nan = match &a {
        Object::Float(f) => f.is_nan(),
        _ => false,
    };
    #[allow(clippy::eq_op)]
    let e = a == a;
    assert!(e == !nan, "VERIF: key does not equal itself");
    std::mem::forget(a);
    vcover!(true, "end reached");
}

/// Maps: falsey iff empty (0 and 1 entries; `RandomState::new` stubbed with fixed keys).
pub fn falsey_map(entries: usize) {
    let m = HMap::default();
    let mut i = 0;
    while i < entries {
        let k = Rc::new(Object::Integer(sym::i64_()));
        let v = Rc::new(Object::Null);
        let (kk, vk) = (k.clone(), v.clone());
        let old = m.pairs.borrow_mut().insert(k, v);
        std::mem::forget(old);
        std::mem::forget(kk);
        std::mem::forget(vk);
        i += 1;
    }
    let o = Object::Map(Rc::new(m));
    assert!(o.is_falsey() == (entries == 0), "VERIF: is_falsey differs from the documented truthiness table");
    std::mem::forget(o);
    vcover!(true, "end reached");
}

/// C09: "strings and chars compare lexicographically". Relational operators (as compiled: `>` and
/// `>=`, `<`/`<=` with swapped operands) and `==` on two chars (any code points) and on two strings
/// of 0..=2 symbolic ASCII bytes, against code-point order / bytewise lexicographic order.
pub fn relational_text(k1: u8, k2: u8) {
    let a = key(k1);
    let b = key(k2);
    let (gt, ge, lt, le, eq) = (&a > &b, &a >= &b, &b > &a, &b >= &a, a == b);
    let ord: i8 = match (&a, &b) {
        (Object::Char(x), Object::Char(y)) => {
            let (x, y) = (*x as u32, *y as u32);
            if x < y { -1 } else if x > y { 1 } else { 0 }
        }
        (Object::Str(x), Object::Str(y)) => {
            let (p, q) = (x.as_bytes(), y.as_bytes());
            let mut r: i8 = 0;
            let mut i = 0;
            while i < 2 {
                if r == 0 {
                    if i < p.len() && i < q.len() {
                        if p[i] < q[i] { r = -1 } else if p[i] > q[i] { r = 1 }
                    } else if i < q.len() {
                        r = -1      // a is a proper prefix of b
                    } else if i < p.len() {
                        r = 1
                    }
                }
                i += 1;
            }
            r
        }
        _ => panic!("VERIF: harness kinds"),
    };
    assert!(eq == (ord == 0), "VERIF: == on text differs from value equality");
    assert!(gt == (ord > 0) && ge == (ord >= 0) && lt == (ord < 0) && le == (ord <= 0), "VERIF: text comparison is not lexicographic");
    std::mem::forget(a);
    std::mem::forget(b);
    vcover!(true, "end reached");
}
