//! C19 / C16: pcap global-header and record-header codecs. C21: `read_from_file` chunk accounting.
//! C15/C16/C17 for the pcap record object (`PcapPacket`, built through hook H1).

use std::io::{self, BufReader, Read};
use std::rc::Rc;

use super::layers::int_of;
use super::sym;
use crate::builtins::pcap::{PcapGlobalHeader, PcapPacket, PcapPacketHeader};
use crate::object::Object;
use crate::vcover;

fn le32(b: &[u8], i: usize) -> u32 {
    (b[i] as u32) | ((b[i + 1] as u32) << 8) | ((b[i + 2] as u32) << 16) | ((b[i + 3] as u32) << 24)
}

/// Global header: accepted iff >= 24 bytes and magic is one of the two legacy values; the
/// serialised form of an accepted header equals its first 24 bytes (so every field was decoded
/// from the right place with the right byte order); `snaplen()` is bytes 16..20 little endian.
pub fn ghdr<const L: usize>() {
    let raw: [u8; L] = sym::bytes::<L>();
    match PcapGlobalHeader::from_bytes(&raw) {
        Ok(h) => {
            vcover!(true, "header accepted");
            assert!(L >= 24, "VERIF: global header accepted from fewer than 24 bytes");
            let magic = le32(&raw, 0);
            assert!(magic == 0xA1B2C3D4 || magic == 0xA1B23C4D, "VERIF: global header accepted with a foreign magic");
            assert!(h.snaplen() == le32(&raw, 16), "VERIF: snaplen differs from bytes 16..20 (LE)");
            let out: Vec<u8> = (&h).into();
            assert!(out.len() == 24, "VERIF: global header does not serialise to 24 bytes");
            let i = sym::usize_();
            sym::assume(i < 24 && i < out.len());
            assert!(out[i] == raw[i], "VERIF: global header serialise(parse(b)) != b");
            std::mem::forget(out);
            std::mem::forget(h);
        }
        Err(e) => {
            vcover!(true, "header rejected");
            if L >= 24 {
                let magic = le32(&raw, 0);
                assert!(magic != 0xA1B2C3D4 && magic != 0xA1B23C4D, "VERIF: well-formed global header rejected");
            }
            std::mem::forget(e);
        }
    }
    vcover!(true, "end reached");
}

/// Newly written files: header built by `PcapGlobalHeader::new(magic)` has version 2.4, zone 0,
/// sigfigs 0, snaplen 65535, linktype 1 (Ethernet) and re-parses to itself.
pub fn ghdr_new() {
    let us = sym::bool_();
    let magic = if us { 0xA1B2C3D4u32 } else { 0xA1B23C4Du32 };
    let h = PcapGlobalHeader::new(magic);
    let out: Vec<u8> = (&h).into();
    assert!(out.len() == 24, "VERIF: new global header does not serialise to 24 bytes");
    let want: [u8; 24] = {
        let m = magic.to_le_bytes();
        [m[0], m[1], m[2], m[3], 2, 0, 4, 0, 0, 0, 0, 0, 0, 0, 0, 0, 0xFF, 0xFF, 0, 0, 1, 0, 0, 0]
    };
    let i = sym::usize_();
    sym::assume(i < 24 && i < out.len());
    assert!(out[i] == want[i], "VERIF: new global header is not a legacy pcap 2.4 Ethernet header");
    match PcapGlobalHeader::from_bytes(&out) {
        Ok(h2) => std::mem::forget(h2),
        Err(_) => panic!("VERIF: header written by the interpreter is rejected by its own reader"),
    }
    std::mem::forget(out);
    std::mem::forget(h);
    vcover!(true, "end reached");
}

/// Record header: >= 16 bytes -> four LE u32 fields; serialise(parse(b)) == b[..16].
pub fn rhdr<const L: usize>() {
    let raw: [u8; L] = sym::bytes::<L>();
    match PcapPacketHeader::from_bytes(&raw) {
        Ok(h) => {
            assert!(L >= 16, "VERIF: record header accepted from fewer than 16 bytes");
            assert!(h.ts_sec == le32(&raw, 0), "VERIF: ts_sec differs from bytes 0..4 (LE)");
            assert!(h.ts_usec == le32(&raw, 4), "VERIF: ts_usec differs from bytes 4..8 (LE)");
            assert!(h.caplen == le32(&raw, 8), "VERIF: caplen differs from bytes 8..12 (LE)");
            assert!(h.wirelen == le32(&raw, 12), "VERIF: wirelen differs from bytes 12..16 (LE)");
            let out: Vec<u8> = (&h).into();
            assert!(out.len() == 16, "VERIF: record header does not serialise to 16 bytes");
            let i = sym::usize_();
            sym::assume(i < 16 && i < out.len());
            assert!(out[i] == raw[i], "VERIF: record header serialise(parse(b)) != b");
            std::mem::forget(out);
        }
        Err(e) => {
            assert!(L < 16, "VERIF: complete record header rejected");
            std::mem::forget(e);
        }
    }
    vcover!(true, "end reached");
}

// ------------------------------------------------------------------------------------------------
// PcapPacket (hook H1: PcapPacket::verif_from_parts)

#[cfg(any(kani, p2sh_verif))]
pub mod pkt {
    use super::*;

    fn build<const L: usize>() -> ([u8; 16], [u8; L], PcapPacket, Rc<Vec<u8>>) {
        let hb: [u8; 16] = sym::bytes::<16>();
        let raw: [u8; L] = sym::bytes::<L>();
        let hdr = match PcapPacketHeader::from_bytes(&hb) {
            Ok(h) => h,
            Err(_) => panic!("VERIF: 16-byte record header rejected"),
        };
        let rc = Rc::new(raw.to_vec());
        let keep = rc.clone();
        (hb, raw, PcapPacket::verif_from_parts(hdr, rc), keep)
    }

    /// C16: record properties sec/usec/caplen/wirelen. C15: serialised record = header ++ bytes.
    pub fn dec_ser<const L: usize>() {
        let (hb, raw, p, keep) = build::<L>();
        assert!(int_of(p.get_ts_sec()) == le32(&hb, 0) as i64, "VERIF: packet sec differs from the record header");
        assert!(int_of(p.get_ts_usec()) == le32(&hb, 4) as i64, "VERIF: packet usec differs from the record header");
        assert!(int_of(p.get_caplen()) == le32(&hb, 8) as i64, "VERIF: packet caplen differs from the record header");
        assert!(int_of(p.get_wirelen()) == le32(&hb, 12) as i64, "VERIF: packet wirelen differs from the record header");
        let out: Vec<u8> = (&p).into();
        assert!(out.len() == 16 + L, "VERIF: serialised record length differs from header + captured bytes");
        let i = sym::usize_();
        sym::assume(i < 16 + L && i < out.len());
        let want = if i < 16 { hb[i] } else { raw[i - 16] };
        assert!(out[i] == want, "VERIF: serialised record differs from the bytes read");
        std::mem::forget(out);
        std::mem::forget(p);
        std::mem::forget(keep);
        vcover!(true, "end reached");
    }

    /// C17: the four record setters. `k`: 0 sec, 1 usec, 2 caplen, 3 wirelen.
    pub fn set<const L: usize>(k: usize) {
        let (hb, raw, p, keep) = build::<L>();
        let v = sym::i64_();
        let arg = Rc::new(Object::Integer(v));
        let arg_keep = arg.clone();
        let res = match k {
            0 => p.set_ts_sec(arg),
            1 => p.set_ts_usec(arg),
            2 => p.set_caplen(arg),
            _ => p.set_wirelen(arg),
        };
        let get = [int_of(p.get_ts_sec()), int_of(p.get_ts_usec()), int_of(p.get_caplen()), int_of(p.get_wirelen())];
        let out: Vec<u8> = (&p).into();
        assert!(out.len() == 16 + L, "VERIF: serialised record length changed by an assignment");
        let i = sym::usize_();
        sym::assume(i < 16 + L && i < out.len());
        let orig = if i < 16 { hb[i] } else { raw[i - 16] };
        let in_range = v >= 0 && v <= 0xFFFF_FFFF;
        match res {
            Ok(()) => {
                let want = v & 0xFFFF_FFFF; // in range: v itself; else reduced to 32 bits
                let mut j = 0;
                while j < 4 {
                    if j == k {
                        assert!(get[j] == want, "VERIF: read-back after assignment differs from the value assigned");
                    } else {
                        assert!(get[j] == le32(&hb, 4 * j) as i64, "VERIF: assignment changed another property");
                    }
                    j += 1;
                }
                if i >= 4 * k && i < 4 * k + 4 {
                    assert!(out[i] == (want as u32).to_le_bytes()[i - 4 * k], "VERIF: assigned value not serialised little-endian in its field");
                } else {
                    assert!(out[i] == orig, "VERIF: serialised bytes changed outside the assigned field");
                }
            }
            Err(e) => {
                assert!(!in_range, "VERIF: setter rejected an in-range value");
                assert!(out[i] == orig, "VERIF: rejected assignment changed the serialised bytes");
                std::mem::forget(e);
            }
        }
        std::mem::forget(out);
        std::mem::forget(arg_keep);
        std::mem::forget(p);
        std::mem::forget(keep);
        vcover!(true, "end reached");
    }
}

// ------------------------------------------------------------------------------------------------
// Pcap object (hook H4: Pcap::verif_from_header): the seven global-header properties (C16) and
// their setters (C17).
#[cfg(any(kani, p2sh_verif))]
pub mod pcapobj {
    use super::*;
    use crate::builtins::pcap::Pcap;

    // field k: (byte offset, width in bytes, signed)
    const F: [(usize, usize, bool); 7] = [(0, 4, false), (4, 2, false), (6, 2, false), (8, 4, true), (12, 4, false), (16, 4, false), (20, 4, false)];

    fn le(b: &[u8], off: usize, n: usize, signed: bool) -> i64 {
        let mut v: u64 = 0;
        let mut i = 0;
        while i < n {
            v |= (b[off + i] as u64) << (8 * i);
            i += 1;
        }
        if signed && n == 4 {
            (v as u32) as i32 as i64
        } else {
            v as i64
        }
    }

    fn getters(p: &Pcap) -> [i64; 7] {
        [int_of(p.get_magic_number()), int_of(p.get_version_major()), int_of(p.get_version_minor()), int_of(p.get_thiszone()),
         int_of(p.get_sigfigs()), int_of(p.get_snaplen()), int_of(p.get_linktype())]
    }

    fn build(ns: bool) -> ([u8; 24], Pcap) {
        let mut raw: [u8; 24] = sym::bytes::<24>();
        // magic: one of the two accepted values, concrete per stamp (everything else is rejected:
        // decided by `ghdr`; with a symbolic magic CBMC also explores the io::Error path, whose
        // drop glue does not finish)
        let m = if ns { 0xA1B23C4Du32 } else { 0xA1B2C3D4u32 }.to_le_bytes();
        raw[0] = m[0];
        raw[1] = m[1];
        raw[2] = m[2];
        raw[3] = m[3];
        let h = match PcapGlobalHeader::from_bytes(&raw) {
            Ok(h) => h,
            Err(e) => {
                std::mem::forget(e);
                panic!("VERIF: well-formed global header rejected")
            }
        };
        (raw, Pcap::verif_from_header(h))
    }

    /// C16: magic, major, minor, thiszone (signed), sigfigs, snaplen, linktype as laid out by the
    /// pcap file format (little endian in the files p2sh accepts).
    pub fn dec(ns: bool) {
        let (raw, p) = build(ns);
        let g = getters(&p);
        let mut k = 0;
        while k < 7 {
            assert!(g[k] == le(&raw, F[k].0, F[k].1, F[k].2), "VERIF: pcap property differs from the global header field");
            k += 1;
        }
        assert!(p.get_magic_number_raw() as i64 == g[0], "VERIF: pcap magic_number_raw differs from the magic property");
        std::mem::forget(p);
        vcover!(true, "end reached");
    }

    /// C17: one pcap setter from an arbitrary header: read-back (value reduced to the field width),
    /// other properties unchanged, serialised header changed only inside the field.
    pub fn set(k: usize, ns: bool, setter: impl Fn(&Pcap, Rc<Object>) -> Result<(), String>) {
        let (raw, p) = build(ns);
        let before = getters(&p);
        let v = sym::i64_();
        let arg = Rc::new(Object::Integer(v));
        let keep = arg.clone();
        let res = setter(&p, arg);
        let after = getters(&p);
        let out: Vec<u8> = (&*p.header.borrow()).into();
        assert!(out.len() == 24, "VERIF: global header does not serialise to 24 bytes after an assignment");
        let i = sym::usize_();
        sym::assume(i < 24 && i < out.len());
        let (off, n, signed) = F[k];
        let in_range = if signed { v >= i32::MIN as i64 && v <= i32::MAX as i64 } else { v >= 0 && (n == 4 && v <= 0xFFFF_FFFF || n == 2 && v <= 0xFFFF) };
        match res {
            Ok(()) => {
                // stored value: v reduced to the field's width (and sign)
                let want: i64 = if n == 2 { (v as u16) as i64 } else if signed { (v as i32) as i64 } else { (v as u32) as i64 };
                if in_range {
                    assert!(want == v, "VERIF: harness range model inconsistent");
                }
                let mut j = 0;
                while j < 7 {
                    if j == k {
                        assert!(after[j] == want, "VERIF: read-back after assignment differs from the value assigned");
                    } else {
                        assert!(after[j] == before[j], "VERIF: assignment changed another property");
                    }
                    j += 1;
                }
                if i >= off && i < off + n {
                    assert!(out[i] == (want as u64).to_le_bytes()[i - off], "VERIF: assigned value not serialised little-endian in its field");
                } else {
                    assert!(out[i] == raw[i], "VERIF: serialised bytes changed outside the assigned field");
                }
            }
            Err(e) => {
                assert!(!in_range, "VERIF: setter rejected an in-range value");
                assert!(out[i] == raw[i], "VERIF: rejected assignment changed the serialised bytes");
                std::mem::forget(e);
            }
        }
        std::mem::forget(out);
        std::mem::forget(keep);
        std::mem::forget(p);
        vcover!(true, "end reached");
    }
}

// ------------------------------------------------------------------------------------------------
// C21: read(f, n) chunk accounting (hook H2: verif_read_from_file).

/// A reader over a symbolic content that honours exactly the documented contract of
/// `Read::read`: returns 0 only at end of input (or for an empty buffer), otherwise any
/// 1 <= k <= min(buf.len(), remaining) — the pipe / chunking schedule as solver variables.
pub struct SymReader<const B: usize> {
    pub content: [u8; B],
    pub len: usize,
    pub pos: usize,
    pub calls: usize,
}

impl<const B: usize> Read for SymReader<B> {
    fn read(&mut self, buf: &mut [u8]) -> io::Result<usize> {
        self.calls += 1;
        let remaining = self.len - self.pos;
        let cap = if buf.len() < remaining { buf.len() } else { remaining };
        if cap == 0 {
            return Ok(0);
        }
        let k = sym::usize_();
        sym::assume(k >= 1 && k <= cap);
        // concrete write indices 0..B (guarded by i < k): a symbolic index into the caller's
        // 4096-byte buffer makes CBMC model the whole array symbolically (>20 GB)
        let mut i = 0;
        while i < B {
            if i < k {
                buf[i] = self.content[self.pos + i];
            }
            i += 1;
        }
        self.pos += k;
        Ok(k)
    }
}

/// Decided: the NUMBER of bytes returned is min(n, len) and (unbuffered reader) exactly that many
/// bytes were consumed from the source — i.e. the result stops short only at end of input and
/// nothing is skipped or read twice at the source. NOT decided: the byte values inside the
/// returned array: loading an `Rc<Object>` element back out of the `Vec<Rc<Object>>` that the real
/// function grows by `push` does not finish in CBMC (pointer-typed reads from a reallocated
/// buffer of symbolic size; measured: >150 s and >20 GB even for one element).
#[cfg(any(kani, p2sh_verif))]
pub fn read_prefix<const B: usize>(buffered: usize) {
    use crate::builtins::functions::verif_read_from_file;
    let content: [u8; B] = sym::bytes::<B>();
    let len = sym::usize_();
    sym::assume(len <= B);
    let n = sym::usize_(); // requested count; usize::MAX is what read(f) passes
    let want = if n < len { n } else { len };
    let res = if buffered == 0 {
        let mut rd = SymReader::<B> { content, len, pos: 0, calls: 0 };
        let r = verif_read_from_file(&mut rd, n);
        match &*r {
            Object::Arr(_) => assert!(rd.pos == want, "VERIF: read(f, n) consumed a different number of bytes from the source than min(n, remaining)"),
            _ => {}
        }
        r
    } else {
        let rd = SymReader::<B> { content, len, pos: 0, calls: 0 };
        let mut br = BufReader::with_capacity(buffered, rd);
        let r = verif_read_from_file(&mut br, n);
        std::mem::forget(br);
        r
    };
    match &*res {
        Object::Arr(a) => {
            let got = a.elements.borrow().len();
            assert!(got == want, "VERIF: read(f, n) returned a different number of bytes than min(n, remaining)");
        }
        _ => panic!("VERIF: read(f, n) did not return an array although the reader never fails"),
    }
    std::mem::forget(res);
    vcover!(true, "end reached");
}
