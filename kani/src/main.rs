// The real crate root: every `mod` item in it resolves under /repo/src, so each build of this
// package compiles /repo's current working tree.
include!("/repo/src/main.rs");

// Harnesses, stubs and reference oracles. Child of the crate root: sees its private items.
#[cfg(any(kani, test))]
#[allow(dead_code, unused_imports, unused_variables, clippy::all)]
mod verif;
