"""Minimal parser for rustc's `-Zunpretty=mir` text: functions, typed locals, basic blocks.

Only what engine M needs. Anything the symbolic executor does not understand is kept as raw text and
makes the *path* that reaches it 'unsupported' (never silently skipped).
"""
import re

FN_RE = re.compile(r"^fn (.+?)\((.*)\) -> (.+) \{$")   # greedy params: split at the LAST ") -> "
LET_RE = re.compile(r"^\s+let (?:mut )?(_\d+): (.+);$")
BB_RE = re.compile(r"^\s+(bb\d+)(?: \(cleanup\))?: \{$")


class Func:
    def __init__(self, name, params, ret):
        self.name = name
        self.params = params          # [(local, type)]
        self.ret = ret
        self.locals = {}              # local -> type text
        self.blocks = {}              # bb -> [stmt text..., terminator text]
        self.text = ""


def split_params(s):
    out, depth, cur = [], 0, ""
    prev = ""
    for ch in s:
        if ch in "<([":
            depth += 1
        elif ch in ")]" or (ch == ">" and prev != "-"):      # "->" in fn(..) -> T is not a closing bracket
            depth -= 1
        prev = ch
        if ch == "," and depth == 0:
            out.append(cur.strip())
            cur = ""
        else:
            cur += ch
    if cur.strip():
        out.append(cur.strip())
    res = []
    for p in out:
        m = re.match(r"(_\d+): (.+)", p)
        if m:
            res.append((m.group(1), m.group(2)))
    return res


def parse(text, name_filter=None):
    """-> dict name -> Func, for functions whose name matches name_filter (regex) if given."""
    funcs = {}
    lines = text.split("\n")
    i = 0
    n = len(lines)
    while i < n:
        ln = lines[i]
        m = FN_RE.match(ln) if ln.startswith("fn ") else None
        if not m and ln.startswith("const "):
            cm = re.match(r"^const (.+?): (.+) = \{$", ln)
            if cm:                                   # named constant: a body without parameters
                m = re.match(r"^(.*)$", ln)
                name = "const " + cm.group(1).split("::")[-1]
                j = i + 1
                while j < n and lines[j] != "}":
                    j += 1
                f = Func(name, [], cm.group(2))
                f.locals["_0"] = f.ret
                cur = None
                for k in range(i + 1, j):
                    l2 = lines[k]
                    bm = BB_RE.match(l2)
                    if bm:
                        cur = bm.group(1)
                        f.blocks[cur] = []
                        continue
                    if cur is not None:
                        st = l2.strip()
                        if st == "}":
                            cur = None
                        elif st:
                            f.blocks[cur].append(st)
                funcs.setdefault(name, f)
                i = j + 1
                continue
        if not m:
            i += 1
            continue
        name = m.group(1)
        j = i + 1
        # find the end of the function: a line that is exactly "}"
        while j < n and lines[j] != "}":
            j += 1
        if name_filter is None or re.search(name_filter, name):
            f = Func(name, split_params(m.group(2)), m.group(3))
            f.text = "\n".join(lines[i:j + 1])
            f.locals["_0"] = f.ret
            for (l, t) in f.params:
                f.locals[l] = t
            cur = None
            for k in range(i + 1, j):
                l2 = lines[k]
                lm = LET_RE.match(l2)
                if lm and cur is None:
                    f.locals[lm.group(1)] = lm.group(2)
                    continue
                bm = BB_RE.match(l2)
                if bm:
                    cur = bm.group(1)
                    f.blocks[cur] = []
                    continue
                if cur is not None:
                    s = l2.strip()
                    if s == "}":
                        cur = None
                    elif s:
                        f.blocks[cur].append(s)
            # the same name can appear more than once (promoted consts etc.): keep the first with blocks
            if name not in funcs or not funcs[name].blocks:
                funcs[name] = f
        i = j + 1
    return funcs


def enum_variants(rust_src, enum_name):
    """Variant names of `pub enum <enum_name>` in declaration order (= discriminant values)."""
    m = re.search(r"pub enum " + re.escape(enum_name) + r" \{(.*?)\n\}", rust_src, re.S)
    if not m:
        raise ValueError("enum not found: " + enum_name)
    out = []
    for ln in m.group(1).split("\n"):
        ln = ln.strip()
        vm = re.match(r"([A-Z]\w*)\s*(\(|,|\{|$)", ln)
        if vm:
            out.append(vm.group(1))
    return out
