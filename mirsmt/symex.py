"""Path-wise symbolic execution of loop-free MIR bodies into SMT-LIB2 terms (engine M).

Parameters of type &Object are modelled as (concrete variant tag, symbolic payload): the caller
enumerates operand kinds, the solver ranges over all payload values. Every construct that is not
modelled makes the path that reaches it 'unsupported' (reported, never ignored).
"""
import re

FP = "(_ FloatingPoint 11 53)"
RNE = "RNE"


class Sc:            # scalar SMT value
    def __init__(self, kind, term, w=0, signed=False):
        self.kind = kind      # 'bv' | 'fp' | 'bool'
        self.term = term
        self.w = w
        self.signed = signed

    def __repr__(self):
        return f"Sc({self.kind}{self.w}{'s' if self.signed else 'u'}:{self.term})"


class ObjRef:        # &Object parameter k (1-based)
    def __init__(self, k):
        self.k = k


class PayRef:        # &payload of parameter k's variant
    def __init__(self, k, variant):
        self.k = k
        self.variant = variant


class Ref:           # & of a local value
    def __init__(self, v):
        self.v = v


class Tup:
    def __init__(self, items):
        self.items = items


class ObjVal:        # a constructed Object
    def __init__(self, variant, payload):
        self.variant = variant
        self.payload = payload


class OptOrd:        # Option<Ordering>: some: Bool term, ord: BV8 term (-1 / 0 / 1)
    def __init__(self, some, ordt):
        self.some = some
        self.ord = ordt


class Opaque:
    def __init__(self, why):
        self.why = why


class OptVal:        # Option<T> whose discriminant is known on this path
    def __init__(self, some, payload=None):
        self.some = some
        self.payload = payload


class VariantView:   # `(place as Variant)`: field .0 is the payload
    def __init__(self, base, variant):
        self.base = base
        self.variant = variant


class CFVal:         # ControlFlow<Residual, T> produced by `?` on an Option with a path-known discriminant
    def __init__(self, cont, payload=None):
        self.cont = cont
        self.payload = payload


class FnRef:         # a function item / fn pointer
    def __init__(self, path):
        self.path = path


class Unsupported(Exception):
    pass


INT_TYPES = {"i8": (8, True), "u8": (8, False), "i16": (16, True), "u16": (16, False), "i32": (32, True),
             "u32": (32, False), "i64": (64, True), "u64": (64, False), "isize": (64, True), "usize": (64, False),
             "char": (32, False)}


def bvconst(v, w):
    return f"(_ bv{v % (1 << w)} {w})"


def sc_of_type(ty, term):
    ty = ty.strip()
    if ty in INT_TYPES:
        w, s = INT_TYPES[ty]
        return Sc("bv", term, w, s)
    if ty == "f64":
        return Sc("fp", term)
    if ty == "bool":
        return Sc("bool", term)
    raise Unsupported("type " + ty)


PAYLOAD_TYPES = {"Integer": "i64", "Float": "f64", "Byte": "u8", "Char": "char", "Bool": "bool"}


class Param:
    """One &Object parameter: concrete variant, symbolic payload constant p<k>_<variant>."""

    def __init__(self, k, variant):
        self.k = k
        self.variant = variant

    def payload(self, variant):
        if variant != self.variant:
            raise Unsupported(f"payload of {variant} read while the operand is {self.variant}")
        if variant not in PAYLOAD_TYPES:
            raise Unsupported("payload of non-scalar variant " + variant)
        return sc_of_type(PAYLOAD_TYPES[variant], f"p{self.k}_{variant}")

    def decl(self):
        if self.variant in PAYLOAD_TYPES:
            ty = PAYLOAD_TYPES[self.variant]
            if ty == "f64":
                # declared through its 64 bits so that every NaN payload etc. has a bit pattern to report
                return [f"(declare-const p{self.k}_{self.variant}_bits (_ BitVec 64))",
                        f"(define-fun p{self.k}_{self.variant} () {FP} ((_ to_fp 11 53) p{self.k}_{self.variant}_bits))"]
            if ty == "bool":
                return [f"(declare-const p{self.k}_{self.variant} Bool)"]
            w = INT_TYPES[ty][0]
            ds = [f"(declare-const p{self.k}_{self.variant} (_ BitVec {w}))"]
            if ty == "char":
                t = f"p{self.k}_{self.variant}"
                ds.append(f"(assert (or (bvult {t} #x0000D800) (and (bvugt {t} #x0000DFFF) (bvule {t} #x0010FFFF))))")
            return ds
        return []


class Outcome:
    def __init__(self, kind, value, conds, where=""):
        self.kind = kind      # 'return' | 'panic' | 'unsupported'
        self.value = value    # value / message / reason
        self.conds = conds    # list of Bool terms (path condition)
        self.where = where

    def cond(self):
        if not self.conds:
            return "true"
        return "(and " + " ".join(self.conds) + ")" if len(self.conds) > 1 else self.conds[0]


class Exec:
    def __init__(self, func, params, variants, all_funcs=None):
        self.f = func
        self.params = {p.k: p for p in params}
        self.variants = variants                  # enum variant names in discriminant order
        self.outcomes = []
        self.all_funcs = all_funcs or {}
        self.depth = 0

    # ---------------------------------------------------------------- operands / places
    def const(self, txt):
        t = txt.strip()
        if t in ("true", "false"):
            return Sc("bool", t)
        m = re.fullmatch(r"(-?\d+)_(\w+)", t)
        if m and m.group(2) in INT_TYPES:
            w, s = INT_TYPES[m.group(2)]
            return Sc("bv", bvconst(int(m.group(1)), w), w, s)
        m = re.fullmatch(r"(\w+)::(MIN|MAX)", t)
        if m and m.group(1) in INT_TYPES:
            w, s = INT_TYPES[m.group(1)]
            if s:
                v = -(1 << (w - 1)) if m.group(2) == "MIN" else (1 << (w - 1)) - 1
            else:
                v = 0 if m.group(2) == "MIN" else (1 << w) - 1
            return Sc("bv", bvconst(v, w), w, s)
        m = re.fullmatch(r"(-?)(\d+(?:\.\d+)?)f64", t)
        if m:
            val = m.group(2)
            if float(val) == 0.0:
                return Sc("fp", f"(_ -zero 11 53)" if m.group(1) else f"(_ +zero 11 53)")
            return Sc("fp", f"((_ to_fp 11 53) {RNE} {'-' if m.group(1) else ''}{val})")
        m = re.fullmatch(r"'(.*)'", t)
        if m:
            c = m.group(1)
            esc = {"\\0": 0, "\\n": 10, "\\t": 9, "\\r": 13, "\\\\": 92, "\\'": 39}
            if c in esc:
                v = esc[c]
            elif len(c) == 1:
                v = ord(c)
            else:
                um = re.fullmatch(r"\\u\{([0-9a-fA-F]+)\}", c)
                if not um:
                    raise Unsupported("char const " + t)
                v = int(um.group(1), 16)
            return Sc("bv", bvconst(v, 32), 32, False)
        if t.startswith('"'):
            return Opaque("str const")
        if re.fullmatch(r"Option::<[\w:]+>::None", t):
            return OptVal(False)
        m = re.fullmatch(r"core::num::<impl (\w+)>::BITS", t)
        if m and m.group(1) in INT_TYPES:
            return Sc("bv", bvconst(INT_TYPES[m.group(1)][0], 32), 32, False)
        # a named constant of the crate: evaluate its body (no parameters, no branching expected)
        item = self.all_funcs.get("const " + t.split("::")[-1])
        if item is not None and item.blocks and self.depth < 6:
            sub = Exec(item, list(self.params.values()), self.variants, self.all_funcs)
            sub.depth = self.depth + 1
            sub.walk("bb0", {}, [], set())
            rets = [o for o in sub.outcomes if o.kind == "return"]
            if len(rets) >= 1 and isinstance(rets[0].value, Sc):
                # panicking branches of a const initialiser are compile errors, not run-time paths
                return rets[0].value
        raise Unsupported("const " + t)

    def place(self, env, txt):
        """Recursive place expressions: _N | (*P) | (P.i: T) | (P as Variant)"""
        t = txt.strip()
        if re.fullmatch(r"_\d+", t):
            if t not in env:
                raise Unsupported("read of unassigned local " + t)
            return env[t]
        if not (t.startswith("(") and t.endswith(")")):
            raise Unsupported("place " + t)
        inner = t[1:-1]
        if inner.startswith("*"):
            r = self.place(env, inner[1:])
            if isinstance(r, PayRef):
                return self.params[r.k].payload(r.variant)
            if isinstance(r, Ref):
                return r.v
            if isinstance(r, ObjRef):
                return r            # (*p) used as an object place (discriminant, variant projection)
            raise Unsupported("deref of " + repr(r))
        # split "<place> as Variant"  or  "<place>.i: Type" at depth 0
        depth = 0
        k = 0
        while k < len(inner):
            ch = inner[k]
            if ch in "(<[":
                depth += 1
            elif ch in ")>]":
                depth -= 1
            elif depth == 0 and inner.startswith(" as ", k):
                base = self.place(env, inner[:k])
                return VariantView(base, inner[k + 4:].strip())
            elif depth == 0 and ch == "." and k > 0:
                m = re.match(r"\.(\d+): ", inner[k:])
                if m:
                    base = self.place(env, inner[:k])
                    idx = int(m.group(1))
                    if isinstance(base, Tup):
                        return base.items[idx]
                    if isinstance(base, VariantView):
                        b = base.base
                        if isinstance(b, ObjRef):
                            return self.params[b.k].payload(base.variant)
                        if isinstance(b, OptVal) and base.variant == "Some" and b.some and idx == 0:
                            return b.payload
                        if isinstance(b, CFVal) and base.variant == "Continue" and b.cont and idx == 0:
                            return b.payload
                        if isinstance(b, CFVal) and base.variant == "Break" and not b.cont and idx == 0:
                            return OptVal(False)
                        raise Unsupported("variant field of " + repr(b))
                    raise Unsupported("field of " + repr(base))
            k += 1
        raise Unsupported("place " + t)

    def operand(self, env, txt):
        t = txt.strip()
        t = re.sub(r"^no_retag ", "", t)
        if t.startswith("const "):
            return self.const(t[6:])
        if t.startswith("copy ") or t.startswith("move "):
            return self.place(env, t[5:])
        raise Unsupported("operand " + t)

    # ---------------------------------------------------------------- rvalues
    def binop(self, op, a, b):
        if isinstance(a, Sc) and isinstance(b, Sc) and a.kind == "fp" and b.kind == "fp":
            arith = {"Add": "fp.add", "Sub": "fp.sub", "Mul": "fp.mul", "Div": "fp.div"}
            if op in arith:
                x, y = a.term, b.term
                if op in ("Add", "Mul"):
                    # commutative in SMT-LIB (single NaN): operands in canonical order, so that an
                    # implementation that adds/multiplies in the other order yields the same term
                    # (z3 4.8.12 does not prove fp.add commutativity within its time limit)
                    x, y = sorted((x, y))
                return Sc("fp", f"({arith[op]} {RNE} {x} {y})")
            cmp_ = {"Eq": "fp.eq", "Lt": "fp.lt", "Le": "fp.leq", "Gt": "fp.gt", "Ge": "fp.geq"}
            if op in cmp_:
                return Sc("bool", f"({cmp_[op]} {a.term} {b.term})")
            if op == "Ne":
                return Sc("bool", f"(not (fp.eq {a.term} {b.term}))")
            raise Unsupported(f"float {op} (Rust's % is fmod; SMT-LIB fp.rem is IEEE remainder)")
        if isinstance(a, Sc) and isinstance(b, Sc) and a.kind == "bool" and b.kind == "bool":
            m = {"Eq": "=", "BitAnd": "and", "BitOr": "or", "BitXor": "xor"}
            if op in m:
                return Sc("bool", f"({m[op]} {a.term} {b.term})")
            if op == "Ne":
                return Sc("bool", f"(not (= {a.term} {b.term}))")
            raise Unsupported("bool " + op)
        if not (isinstance(a, Sc) and isinstance(b, Sc) and a.kind == "bv" and b.kind == "bv"):
            raise Unsupported(f"binop {op} on {a!r} {b!r}")
        w, s = a.w, a.signed
        if op in ("Shl", "Shr", "ShlUnchecked", "ShrUnchecked"):
            # MIR Shl/Shr: the amount is truncated to the width of the left operand (masked)
            amt = self.cast_bv(b, w, False)
            amt = f"(bvand {amt} {bvconst(w - 1, w)})"
            fn = "bvshl" if op.startswith("Shl") else ("bvashr" if s else "bvlshr")
            return Sc("bv", f"({fn} {a.term} {amt})", w, s)
        if a.w != b.w:
            raise Unsupported("width mismatch in " + op)
        simple = {"Add": "bvadd", "Sub": "bvsub", "Mul": "bvmul", "BitAnd": "bvand", "BitOr": "bvor", "BitXor": "bvxor",
                  "AddUnchecked": "bvadd", "SubUnchecked": "bvsub", "MulUnchecked": "bvmul"}
        if op in simple:
            x, y = a.term, b.term
            if not op.startswith("Sub"):
                x, y = sorted((x, y))       # commutative: canonical operand order (see the fp case)
            return Sc("bv", f"({simple[op]} {x} {y})", w, s)
        if op == "Div":
            return Sc("bv", f"({'bvsdiv' if s else 'bvudiv'} {a.term} {b.term})", w, s)
        if op == "Rem":
            return Sc("bv", f"({'bvsrem' if s else 'bvurem'} {a.term} {b.term})", w, s)
        cmps = {"Lt": ("bvslt", "bvult"), "Le": ("bvsle", "bvule"), "Gt": ("bvsgt", "bvugt"), "Ge": ("bvsge", "bvuge")}
        if op in cmps:
            return Sc("bool", f"({cmps[op][0 if s else 1]} {a.term} {b.term})")
        if op == "Eq":
            return Sc("bool", f"(= {a.term} {b.term})")
        if op == "Ne":
            return Sc("bool", f"(not (= {a.term} {b.term}))")
        if op in ("AddWithOverflow", "SubWithOverflow", "MulWithOverflow"):
            base = {"AddWithOverflow": "bvadd", "SubWithOverflow": "bvsub", "MulWithOverflow": "bvmul"}[op]
            res = f"({base} {a.term} {b.term})"
            ext = w if op == "MulWithOverflow" else 1
            e = (lambda t: f"((_ sign_extend {ext}) {t})") if s else (lambda t: f"((_ zero_extend {ext}) {t})")
            wide = f"({base} {e(a.term)} {e(b.term)})"
            ovf = f"(not (= {wide} {e(res)}))"
            return Tup([Sc("bv", res, w, s), Sc("bool", ovf)])
        raise Unsupported("binop " + op)

    def cast_bv(self, a, w2, s2):
        if a.w == w2:
            return a.term
        if w2 < a.w:
            return f"((_ extract {w2 - 1} 0) {a.term})"
        ext = "sign_extend" if a.signed else "zero_extend"
        return f"((_ {ext} {w2 - a.w}) {a.term})"

    def cast(self, a, ty, kind):
        ty = ty.strip()
        if kind == "IntToInt" and isinstance(a, Sc) and a.kind == "bv" and ty in INT_TYPES:
            w2, s2 = INT_TYPES[ty]
            return Sc("bv", self.cast_bv(a, w2, s2), w2, s2)
        if kind == "IntToInt" and isinstance(a, Sc) and a.kind == "bool" and ty in INT_TYPES:
            w2, s2 = INT_TYPES[ty]
            return Sc("bv", f"(ite {a.term} {bvconst(1, w2)} {bvconst(0, w2)})", w2, s2)
        if kind == "IntToFloat" and isinstance(a, Sc) and a.kind == "bv" and ty == "f64":
            fn = "(_ to_fp 11 53)" if a.signed else "(_ to_fp_unsigned 11 53)"
            return Sc("fp", f"({fn} {RNE} {a.term})")
        raise Unsupported(f"cast {kind} to {ty}")

    def rvalue(self, env, txt):
        t = txt.strip()
        t = re.sub(r"^no_retag ", "", t)
        m = re.fullmatch(r"discriminant\((.+)\)", t)
        if m:
            v = self.place(env, m.group(1))
            if isinstance(v, ObjRef):
                return Sc("bv", bvconst(self.variants.index(self.params[v.k].variant), 64), 64, True)
            if isinstance(v, OptOrd):
                return Sc("bv", f"(ite {v.some} {bvconst(1, 64)} {bvconst(0, 64)})", 64, True)
            if isinstance(v, OptVal):
                return Sc("bv", bvconst(1 if v.some else 0, 64), 64, True)
            if isinstance(v, CFVal):
                return Sc("bv", bvconst(0 if v.cont else 1, 64), 64, True)
            raise Unsupported("discriminant of " + repr(v))
        if t.startswith("&"):
            inner = re.sub(r"^&(mut )?", "", t).strip()
            m = re.fullmatch(r"\(\(\(\*(_\d+)\) as (\w+)\)\.0: .*\)", inner)
            if m:
                r = self.place(env, m.group(1))
                if isinstance(r, ObjRef):
                    return PayRef(r.k, m.group(2))
            m = re.fullmatch(r"\(\*(_\d+)\)", inner)
            if m:
                return self.place(env, m.group(1))   # reborrow
            return Ref(self.place(env, inner))
        m = re.fullmatch(r"(.+) as (?:unsafe )?fn\(.*\) -> .+ \(PointerCoercion\(ReifyFnPointer.*\)\)", t)
        if m:
            return FnRef(re.sub(r"^(const|copy|move) ", "", m.group(1).strip()))
        m = re.fullmatch(r"Option::<[\w:]+>::Some\((.+)\)", t)
        if m and "Ordering" not in t:
            return OptVal(True, self.operand(env, m.group(1)))
        if re.fullmatch(r"Option::<[\w:]+>::None", t) and "Ordering" not in t:
            return OptVal(False)
        m = re.fullmatch(r"(.+) as ([\w:<>]+) \((\w+)(?:\([^)]*\))?\)", t)
        if m:
            return self.cast(self.operand(env, m.group(1)), m.group(2), m.group(3))
        m = re.fullmatch(r"(\w+)\((.+), (.+)\)", t)
        if m and m.group(1)[0].isupper() and not t.startswith("Object::"):
            return self.binop(m.group(1), self.operand(env, m.group(2)), self.operand(env, m.group(3)))
        m = re.fullmatch(r"(Neg|Not)\((.+)\)", t)
        if m:
            a = self.operand(env, m.group(2))
            if m.group(1) == "Neg":
                if a.kind == "fp":
                    return Sc("fp", f"(fp.neg {a.term})")
                return Sc("bv", f"(bvneg {a.term})", a.w, a.signed)
            if a.kind == "bool":
                return Sc("bool", f"(not {a.term})")
            return Sc("bv", f"(bvnot {a.term})", a.w, a.signed)
        m = re.fullmatch(r"(?:object::)?Object::(\w+)\((.+)\)", t)
        if m:
            return ObjVal(m.group(1), self.operand(env, m.group(2)))
        m = re.fullmatch(r"(?:object::)?Object::(\w+)", t)
        if m:
            return ObjVal(m.group(1), None)
        if re.fullmatch(r"Option::<std::cmp::Ordering>::None", t):
            return OptOrd("false", bvconst(0, 8))
        m = re.fullmatch(r"Option::<std::cmp::Ordering>::Some\((.+)\)", t)
        if m:
            v = self.operand(env, m.group(1))
            if isinstance(v, Sc):
                return OptOrd("true", self.cast_bv(v, 8, True))
            raise Unsupported("Some(Ordering) of " + repr(v))
        m = re.fullmatch(r"\((.+), (.+)\)", t)
        if m and not t.startswith("(*") and not t.startswith("(("):
            return Tup([self.operand(env, m.group(1)), self.operand(env, m.group(2))])
        m = re.fullmatch(r"\((copy|move) (_\d+),\)", t)
        if m:
            return Tup([self.place(env, m.group(2))])
        return self.operand(env, t)

    # ---------------------------------------------------------------- calls
    def call(self, env, path, args, conds):
        """-> list of (value, extra_conds) continuations, or raises; may append panic outcomes."""
        a = [self.operand(env, x) for x in args]
        # call through a local holding a fn pointer / fn item
        if re.fullmatch(r"(copy |move )?_\d+", path.strip()):
            f = self.place(env, re.sub(r"^(copy|move) ", "", path.strip()))
            if not isinstance(f, FnRef):
                raise Unsupported("indirect call through " + repr(f))
            path = f.path
        # crate-local function whose MIR body is in the dump: execute it in place (loop-free helpers)
        callee = self.all_funcs.get(path) or self.all_funcs.get(re.sub(r"::<.*>$", "", path))
        if callee is None:
            mm = re.fullmatch(r"(?:object::)?Object::(\w+)", path)
            if mm:
                pat = re.compile(r"object::<impl at src/object/mod\.rs:[^>]*>::" + mm.group(1) + r"$")
                cands = [f for n, f in self.all_funcs.items() if pat.search(n)]
                if len(cands) == 1:
                    callee = cands[0]
        if callee is not None and callee.blocks and self.depth < 6:
            sub = Exec(callee, list(self.params.values()), self.variants, self.all_funcs)
            sub.depth = self.depth + 1
            env2 = {}
            if len(callee.params) != len(a):
                raise Unsupported("arity mismatch calling " + path)
            for (l, _ty), v in zip(callee.params, a):
                env2[l] = v
            sub.walk("bb0", env2, [], set())
            conts = []
            for o in sub.outcomes:
                if o.kind == "return":
                    conts.append((o.value, list(o.conds)))
                else:
                    self.outcomes.append(Outcome(o.kind, o.value, conds + list(o.conds), path))
            return conts

        def deref(v):
            if isinstance(v, PayRef):
                return self.params[v.k].payload(v.variant)
            if isinstance(v, Ref):
                return v.v
            return v
        m = re.fullmatch(r"core::num::<impl (\w+)>::wrapping_(\w+)", path)
        if m and m.group(1) in INT_TYPES:
            w, s = INT_TYPES[m.group(1)]
            op = m.group(2)
            x = a[0]
            if op == "neg":
                return [(Sc("bv", f"(bvneg {x.term})", w, s), [])]
            y = a[1]
            if op in ("add", "sub", "mul"):
                return [(self.binop(op.capitalize(), x, y), [])]
            if op in ("shl", "shr"):
                return [(self.binop("Shl" if op == "shl" else "Shr", x, y), [])]
            if op in ("div", "rem"):
                zero = f"(= {y.term} {bvconst(0, w)})"
                self.outcomes.append(Outcome("panic", f"attempt to {'divide' if op == 'div' else 'calculate the remainder'} by zero "
                                             f"(inside {m.group(1)}::wrapping_{op})", conds + [zero], path))
                if s:
                    special = f"(and (= {x.term} {bvconst(-(1 << (w - 1)), w)}) (= {y.term} {bvconst(-1, w)}))"
                    if op == "div":
                        r = f"(ite {special} {x.term} (bvsdiv {x.term} {y.term}))"
                    else:
                        r = f"(ite {special} {bvconst(0, w)} (bvsrem {x.term} {y.term}))"
                else:
                    r = f"({'bvudiv' if op == 'div' else 'bvurem'} {x.term} {y.term})"
                return [(Sc("bv", r, w, s), [f"(not {zero})"])]
        m = re.fullmatch(r"<(\w+) as PartialEq>::(eq|ne)", path)
        if m and (m.group(1) in INT_TYPES or m.group(1) in ("f64", "bool")):
            r = self.binop("Eq" if m.group(2) == "eq" else "Ne", deref(a[0]), deref(a[1]))
            return [(r, [])]
        m = re.fullmatch(r"<(\w+) as PartialOrd>::partial_cmp", path)
        if m and (m.group(1) in INT_TYPES or m.group(1) in ("f64", "bool")):
            x, y = deref(a[0]), deref(a[1])
            if x.kind == "bool":
                x = Sc("bv", f"(ite {x.term} #b1 #b0)", 1, False)
                y = Sc("bv", f"(ite {y.term} #b1 #b0)", 1, False)
            lt = self.binop("Lt", x, y).term
            gt = self.binop("Gt", x, y).term
            eq = self.binop("Eq", x, y).term
            some = "true" if x.kind == "bv" else f"(or {lt} {gt} {eq})"
            ordt = f"(ite {lt} {bvconst(-1, 8)} (ite {gt} {bvconst(1, 8)} {bvconst(0, 8)}))"
            return [(OptOrd(some, ordt), [])]
        m = re.fullmatch(r"<(\w+) as PartialOrd>::(lt|le|gt|ge)", path)
        if m and (m.group(1) in INT_TYPES or m.group(1) == "f64"):
            r = self.binop(m.group(2).capitalize(), deref(a[0]), deref(a[1]))
            return [(r, [])]
        m = re.fullmatch(r"<(\w+) as (?:std::convert::)?From<(\w+)>>::from", path)
        if m and isinstance(a[0], Sc):
            dst, src = m.group(1), m.group(2)
            if dst in INT_TYPES and src in INT_TYPES:
                return [(self.cast(a[0], dst, "IntToInt"), [])]
            if dst == "f64" and src in INT_TYPES:
                return [(self.cast(a[0], "f64", "IntToFloat"), [])]
        if re.fullmatch(r"<f64 as (?:std::ops::)?Rem(?:<f64>)?>::rem", path):
            raise Unsupported("float Rem (Rust's % is fmod; SMT-LIB fp.rem is IEEE remainder)")
        m = re.fullmatch(r"<(\w+) as (?:std::ops::)?(Add|Sub|Mul|Div|Neg|BitAnd|BitOr|BitXor)(?:<\w+>)?>::(\w+)", path)
        if m and m.group(1) == "f64" and all(isinstance(x, Sc) for x in a):
            if m.group(2) == "Neg":
                return [(Sc("fp", f"(fp.neg {a[0].term})"), [])]
            return [(self.binop(m.group(2), a[0], a[1]), [])]
        if m and m.group(1) in INT_TYPES and m.group(2) in ("BitAnd", "BitOr", "BitXor") and all(isinstance(x, Sc) for x in a):
            return [(self.binop(m.group(2), a[0], a[1]), [])]      # (Add/Sub/Mul/Div on ints carry overflow checks: not modelled as calls)
        m = re.fullmatch(r"<(\w+) as Ord>::cmp", path)
        if m and m.group(1) in INT_TYPES:
            x, y = deref(a[0]), deref(a[1])
            lt, gt = self.binop("Lt", x, y).term, self.binop("Gt", x, y).term
            return [(Sc("bv", f"(ite {lt} {bvconst(-1, 8)} (ite {gt} {bvconst(1, 8)} {bvconst(0, 8)}))", 8, True), [])]
        m = re.fullmatch(r"<&(\w+) as PartialEq>::(eq|ne)", path)
        if m and (m.group(1) in INT_TYPES or m.group(1) in ("f64", "bool")):
            r = self.binop("Eq" if m.group(2) == "eq" else "Ne", deref(deref(a[0])), deref(deref(a[1])))
            return [(r, [])]
        if re.fullmatch(r"<Option<[\w:]+> as (?:std::ops::)?Try>::branch", path) and isinstance(a[0], OptVal):
            # the `?` operator on an Option: Some(x) -> Continue(x), None -> Break(None)
            return [(CFVal(a[0].some, a[0].payload), [])]
        if re.fullmatch(r"<Option<std::cmp::Ordering> as (?:std::ops::)?FromResidual<Option<(?:std::convert::)?Infallible>>>::from_residual", path):
            return [(OptOrd("false", bvconst(0, 8)), [])]
        if re.search(r"Arguments::<'_>::(from_str|new_const|new)", path) or path.endswith("Arguments::from_str"):
            return [(Opaque("fmt::Arguments"), [])]
        raise Unsupported("call " + path)

    # ---------------------------------------------------------------- control flow
    def run(self):
        env = {}
        for i, (l, ty) in enumerate(self.f.params):
            if ty.strip() in ("&Object", "&object::Object"):
                env[l] = ObjRef(i + 1)
            else:
                raise Unsupported("parameter type " + ty)
        self.walk("bb0", env, [], set())
        return self.outcomes

    def walk(self, bb, env, conds, seen):
        if bb in seen:
            self.outcomes.append(Outcome("unsupported", "loop through " + bb, conds))
            return
        seen = seen | {bb}
        env = dict(env)
        stmts = self.f.blocks.get(bb)
        if stmts is None:
            self.outcomes.append(Outcome("unsupported", "missing block " + bb, conds))
            return
        try:
            for st in stmts[:-1]:
                self.stmt(env, st)
            self.term(stmts[-1], env, conds, seen)
        except Unsupported as e:
            self.outcomes.append(Outcome("unsupported", str(e), conds, bb))

    def stmt(self, env, st):
        st = st.rstrip(";")
        if st.startswith(("StorageLive", "StorageDead", "nop", "FakeRead", "PlaceMention", "Retag", "AscribeUserType", "Coverage", "ConstEvalCounter", "//", "BackwardIncompatibleDropHint")):
            return
        m = re.match(r"(_\d+) = (.+)$", st)
        if not m:
            raise Unsupported("statement " + st)
        env[m.group(1)] = self.rvalue(env, m.group(2))

    def term(self, t, env, conds, seen):
        t = t.rstrip(";")
        if t == "return":
            if "_0" not in env:
                raise Unsupported("return without value")
            self.outcomes.append(Outcome("return", env["_0"], conds))
            return
        m = re.fullmatch(r"goto -> (bb\d+)", t)
        if m:
            return self.walk(m.group(1), env, conds, seen)
        if t.startswith("unreachable"):
            self.outcomes.append(Outcome("unsupported", "unreachable terminator reached", conds))
            return
        m = re.fullmatch(r"switchInt\((.+)\) -> \[(.+)\]", t)
        if m:
            v = self.operand(env, m.group(1))
            arms = []
            other = None
            for part in m.group(2).split(", "):
                k, tgt = part.split(": ")
                if k == "otherwise":
                    other = tgt
                else:
                    arms.append((int(k), tgt))
            if not isinstance(v, Sc):
                raise Unsupported("switchInt on " + repr(v))
            if v.kind == "bool":
                vb = Sc("bv", f"(ite {v.term} #b1 #b0)", 1, False)
            else:
                vb = v
            cm = re.fullmatch(r"\(_ bv(\d+) (\d+)\)", vb.term)
            if cm:                                   # concrete (discriminant of a kind-fixed operand)
                cv = int(cm.group(1))
                for (k, tgt) in arms:
                    if k % (1 << vb.w) == cv:
                        return self.walk(tgt, env, conds, seen)
                if other is None:
                    raise Unsupported("switchInt without matching arm")
                return self.walk(other, env, conds, seen)
            negs = []
            for (k, tgt) in arms:
                c = f"(= {vb.term} {bvconst(k, vb.w)})"
                self.walk(tgt, env, conds + [c], seen)
                negs.append(f"(not {c})")
            if other is not None:
                self.walk(other, env, conds + negs, seen)
            return
        m = re.fullmatch(r"assert\((!?)(.+?), (\".*?\")(?:, .*)?\) -> \[success: (bb\d+), unwind[^\]]*\]", t)
        if m:
            c = self.operand(env, m.group(2))
            if not (isinstance(c, Sc) and c.kind == "bool"):
                raise Unsupported("assert on " + repr(c))
            good = f"(not {c.term})" if m.group(1) else c.term
            self.outcomes.append(Outcome("panic", m.group(3).strip('"'), conds + [f"(not {good})"]))
            return self.walk(m.group(4), env, conds + [good], seen)
        m = re.fullmatch(r"(_\d+) = (.+?)\((.*)\) -> (?:\[return: (bb\d+), unwind[^\]]*\]|unwind .*)", t)
        if m:
            dst, path, argtxt, ret = m.group(1), m.group(2), m.group(3), m.group(4)
            if re.search(r"panic", path):
                self.outcomes.append(Outcome("panic", "explicit panic: " + path, conds))
                return
            args = split_args(argtxt)
            for (val, extra) in self.call(env, path, args, conds):
                e2 = dict(env)
                e2[dst] = val
                if ret is None:
                    raise Unsupported("call without return edge " + path)
                self.walk(ret, e2, conds + extra, seen)
            return
        m = re.fullmatch(r"drop\((_\d+)\) -> \[return: (bb\d+), unwind[^\]]*\]", t)
        if m:
            return self.walk(m.group(2), env, conds, seen)
        raise Unsupported("terminator " + t)


def split_args(s):
    out, depth, cur = [], 0, ""
    instr = False
    prev = ""
    for ch in s:
        if ch == '"':
            instr = not instr
        if not instr:
            if ch in "<([":
                depth += 1
            elif ch in ")]" or (ch == ">" and prev != "-"):  # "->" is not a closing bracket
                depth -= 1
        prev = ch
        if ch == "," and depth == 0 and not instr:
            out.append(cur.strip())
            cur = ""
        else:
            cur += ch
    if cur.strip():
        out.append(cur.strip())
    return out
