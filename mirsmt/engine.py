"""Engine M: MIR -> SMT-LIB2 for the operator kernels of src/object/mod.rs (both build profiles).

 1. dump the MIR of /repo's current working tree (nightly rustc, -Zunpretty=mir), once with
    overflow checks off (what `cargo build --release` gives) and once with them on (dev);
 2. symbolically execute the loop-free operator functions per operand-kind pair (symex.py);
 3. discharge one query per (function, profile, kind pair, obligation) with z3, and again with cvc5;
    the two solvers must agree; any `(error` line or `unknown` = inconclusive;
 4. validate the translation on boundary vectors against the natively compiled real functions;
 5. sat = counterexample: its operands are replayed natively before it is reported.
"""
import os, re, subprocess, time, json, itertools, struct

from . import mir, symex
from .symex import Sc, ObjVal, OptOrd, Param, bvconst, FP, RNE

VERIF = os.path.dirname(os.path.dirname(os.path.abspath(__file__)))
BUILD = os.path.join(VERIF, ".build")
REPO = os.environ.get("VERIF_REPO", "/repo")

PROFILES = {
    "release": ["-C", "overflow-checks=off", "-C", "debug-assertions=off"],
    "dev": ["-C", "overflow-checks=on", "-C", "debug-assertions=on"],
}
NUM = ["Integer", "Float", "Byte"]
SHORT = {"Integer": "int", "Float": "float", "Byte": "byte", "Char": "char", "Bool": "bool", "Null": "null"}


def dump_mir(profile, log=None):
    """MIR text of /repo's current sources. Builds in /verif/.build/mir (nothing written to /repo)."""
    env = dict(os.environ)
    env["CARGO_NET_OFFLINE"] = "true"
    env.pop("RUSTFLAGS", None)
    tdir = os.path.join(BUILD, "mir_" + profile)
    # rustc prints the MIR only when it actually compiles the crate: force it
    subprocess.run(["touch", REPO + "/src/main.rs"], check=False)
    cmd = ["cargo", "+nightly", "rustc", "--offline", "--bin", "p2sh", "--target-dir", tdir, "--",
           "-Zunpretty=mir"] + PROFILES[profile]
    p = subprocess.run(cmd, cwd=REPO, env=env, stdout=subprocess.PIPE, stderr=subprocess.PIPE, text=True, timeout=1200)
    if log:
        open(log, "a").write("$ " + " ".join(cmd) + "\n" + p.stderr[-3000:] + "\n")
    if p.returncode != 0 or "fn " not in p.stdout:
        raise RuntimeError("MIR dump failed: " + p.stderr[-2000:])
    return p.stdout


def obj_fn(funcs, method):
    pat = re.compile(r"object::<impl at src/object/mod\.rs:[^>]*>::" + re.escape(method) + r"$")
    c = [f for n, f in funcs.items() if pat.search(n)]
    if len(c) != 1:
        raise RuntimeError(f"expected exactly one MIR body for Object::{method}, found {len(c)}")
    return c[0]


# ------------------------------------------------------------------------------------------------
# reference model (C09), as SMT terms over the same payload constants

def as_fp(p):
    if p.kind == "fp":
        return p.term
    fn = "(_ to_fp 11 53)" if p.signed else "(_ to_fp_unsigned 11 53)"
    return f"({fn} {RNE} {p.term})"


def widen(p, w=64):
    if p.w == w:
        return p.term
    return f"((_ zero_extend {w - p.w}) {p.term})"      # Byte -> i64: zero extension


def ref_arith(op, ka, kb, a, b):
    """-> (variant, term) of the result the language defines, or None if M does not model it."""
    if ka == "Float" or kb == "Float":
        fn = {"add": "fp.add", "sub": "fp.sub", "mul": "fp.mul", "div": "fp.div"}.get(op)
        if fn is None:
            return None                      # float % (fmod) has no SMT-LIB counterpart
        x, y = as_fp(a), as_fp(b)
        if op in ("add", "mul"):
            x, y = sorted((x, y))            # canonical order for commutative operators (as symex.binop)
        return ("Float", f"({fn} {RNE} {x} {y})")
    if ka == "Byte" and kb == "Byte":
        w, x, y, signed, var = 8, a.term, b.term, False, "Byte"
    else:
        w, x, y, signed, var = 64, widen(a), widen(b), True, "Integer"
    if op in ("add", "sub", "mul"):
        if op != "sub":
            x, y = sorted((x, y))
        return (var, f"(bv{op} {x} {y})")
    if signed:
        special = f"(and (= {x} {bvconst(-(1 << 63), 64)}) (= {y} {bvconst(-1, 64)}))"
        if op == "div":
            return (var, f"(ite {special} {x} (bvsdiv {x} {y}))")
        return (var, f"(ite {special} {bvconst(0, 64)} (bvsrem {x} {y}))")
    return (var, f"({'bvudiv' if op == 'div' else 'bvurem'} {x} {y})")


def result_eq(val, variant, term):
    """Bool term: the constructed object `val` is Object::<variant>(term) (floats bit-for-bit, NaN ~ NaN)."""
    if not isinstance(val, ObjVal) or val.variant != variant or not isinstance(val.payload, Sc):
        return "false"
    if variant == "Float":
        # FP equality in SMT-LIB is structural (one NaN): exactly "same bits or both NaN"
        return f"(= {val.payload.term} {term})"
    return f"(= {val.payload.term} {term})"


# ------------------------------------------------------------------------------------------------
class Query:
    def __init__(self, name, decls, assertion, expect_unsat_means, inputs, meta):
        self.name = name
        self.decls = decls
        self.assertion = assertion      # Bool term; the query asserts it and asks check-sat
        self.meaning = expect_unsat_means
        self.inputs = inputs            # [(const name, sort kind)] to read back on sat
        self.meta = meta
        self.verdict = {}
        self.model = None


def build_queries(funcs, variants, profile):
    qs = []
    notes = []

    def run_fn(method, kinds):
        f = obj_fn(funcs, method)
        params = [Param(i + 1, k) for i, k in enumerate(kinds)]
        ex = symex.Exec(f, params, variants, funcs)
        return f, params, ex.run()

    def decls_of(params):
        d = []
        for p in params:
            d += p.decl()
        return d

    def inputs_of(params):
        out = []
        for p in params:
            if p.variant == "Float":
                out.append((f"p{p.k}_Float_bits", "Float"))
            elif p.variant in symex.PAYLOAD_TYPES:
                out.append((f"p{p.k}_{p.variant}", p.variant))
        return out

    def is_zero_term(kind, k):
        """`Object::is_zero` of parameter k, from its own MIR (this is the VM's zero-divisor test)."""
        f = obj_fn(funcs, "is_zero")
        ex = symex.Exec(f, [Param(1, kind)], variants, funcs)
        outs = ex.run()
        terms = []
        for o in outs:
            if o.kind != "return" or not isinstance(o.value, Sc):
                raise RuntimeError("is_zero not translatable: " + str(o.value))
            terms.append(f"(and {o.cond()} {o.value.term})")
        t = "(or " + " ".join(terms) + ")" if len(terms) > 1 else terms[0]
        return t.replace("p1_", f"p{k}_")

    # ---- arithmetic: no panic (C08) + value (C09)
    for op in ("add", "sub", "mul", "div", "rem"):
        for ka in NUM:
            for kb in NUM:
                try:
                    f, params, outs = run_fn(op, [ka, kb])
                except Exception as e:
                    notes.append(f"{op} {ka} {kb}: {e}")
                    continue
                pre = "true"
                if op in ("div", "rem"):
                    pre = f"(not {is_zero_term(kb, 2)})"
                a, b = params[0].payload(ka), params[1].payload(kb)
                ref = ref_arith(op, ka, kb, a, b)
                base = f"{op}_{SHORT[ka]}_{SHORT[kb]}"
                meta = {"function": f.name, "op": op, "kinds": [ka, kb], "profile": profile}
                for i, o in enumerate(outs):
                    if o.kind == "panic":
                        qs.append(Query(f"c08:{base}:{profile}:panic{i}", decls_of(params), f"(and {pre} {o.cond()})",
                                        "no operand values reach this panic: " + str(o.value), inputs_of(params),
                                        dict(meta, prop="C08", obligation="no-panic", panic=str(o.value))))
                    elif o.kind == "unsupported":
                        qs.append(Query(f"unsup:{base}:{profile}:{i}", decls_of(params), f"(and {pre} {o.cond()})",
                                        "untranslated path is unreachable: " + str(o.value), inputs_of(params),
                                        dict(meta, prop="C09", obligation="unsupported-path-unreachable", reason=str(o.value))))
                    else:
                        if ref is None:
                            notes.append(f"{base}: value not modelled (float %)")
                            continue
                        qs.append(Query(f"c09:{base}:{profile}:value{i}", decls_of(params),
                                        f"(and {pre} {o.cond()} (not {result_eq(o.value, ref[0], ref[1])}))",
                                        "result equals the numeric model on this path", inputs_of(params),
                                        dict(meta, prop="C09", obligation="value")))
    # ---- bitwise / shifts (Integer x Integer) and unary minus
    for op in ("bitand", "bitor", "bitxor", "shl", "shr"):
        try:
            f, params, outs = run_fn(op, ["Integer", "Integer"])
        except Exception as e:
            notes.append(f"{op}: {e}")
            continue
        x, y = "p1_Integer", "p2_Integer"
        amt = f"(bvand {y} {bvconst(63, 64)})"
        cx, cy = sorted((x, y))
        ref = {"bitand": f"(bvand {cx} {cy})", "bitor": f"(bvor {cx} {cy})", "bitxor": f"(bvxor {cx} {cy})",
               "shl": f"(bvshl {x} {amt})", "shr": f"(bvashr {x} {amt})"}[op]
        meta = {"function": f.name, "op": op, "kinds": ["Integer", "Integer"], "profile": profile}
        for i, o in enumerate(outs):
            if o.kind == "panic":
                qs.append(Query(f"c08:{op}_int_int:{profile}:panic{i}", decls_of(params), o.cond(),
                                "no operand values reach this panic: " + str(o.value), inputs_of(params),
                                dict(meta, prop="C08", obligation="no-panic", panic=str(o.value))))
            elif o.kind == "unsupported":
                qs.append(Query(f"unsup:{op}_int_int:{profile}:{i}", decls_of(params), o.cond(), "untranslated path is unreachable: " + str(o.value),
                                inputs_of(params), dict(meta, prop="C09", obligation="unsupported-path-unreachable", reason=str(o.value))))
            else:
                qs.append(Query(f"c09:{op}_int_int:{profile}:value{i}", decls_of(params),
                                f"(and {o.cond()} (not {result_eq(o.value, 'Integer', ref)}))",
                                "result equals the numeric model on this path", inputs_of(params), dict(meta, prop="C09", obligation="value")))
    for k in ("Integer", "Float"):
        try:
            f, params, outs = run_fn("neg", [k])
        except Exception as e:
            notes.append(f"neg {k}: {e}")
            continue
        ref = "(bvneg p1_Integer)" if k == "Integer" else "(fp.neg p1_Float)"
        meta = {"function": f.name, "op": "neg", "kinds": [k], "profile": profile}
        for i, o in enumerate(outs):
            if o.kind == "panic":
                qs.append(Query(f"c08:neg_{SHORT[k]}:{profile}:panic{i}", decls_of(params), o.cond(), "no operand values reach this panic: " + str(o.value),
                                inputs_of(params), dict(meta, prop="C08", obligation="no-panic", panic=str(o.value))))
            elif o.kind == "unsupported":
                qs.append(Query(f"unsup:neg_{SHORT[k]}:{profile}:{i}", decls_of(params), o.cond(), "untranslated path is unreachable: " + str(o.value),
                                inputs_of(params), dict(meta, prop="C09", obligation="unsupported-path-unreachable", reason=str(o.value))))
            else:
                qs.append(Query(f"c09:neg_{SHORT[k]}:{profile}:value{i}", decls_of(params),
                                f"(and {o.cond()} (not {result_eq(o.value, k, ref)}))", "result equals the numeric model on this path",
                                inputs_of(params), dict(meta, prop="C09", obligation="value")))
    # ---- relational / equality over Integer and Float
    for ka in ("Integer", "Float"):
        for kb in ("Integer", "Float"):
            try:
                f1, params, po = run_fn("partial_cmp", [ka, kb])
                f2, _, eo = run_fn("eq", [ka, kb])
            except Exception as e:
                notes.append(f"rel {ka} {kb}: {e}")
                continue
            a, b = params[0].payload(ka), params[1].payload(kb)
            if ka == "Integer" and kb == "Integer":
                wgt, wge, weq = f"(bvsgt {a.term} {b.term})", f"(bvsge {a.term} {b.term})", f"(= {a.term} {b.term})"
            else:
                wgt, wge, weq = f"(fp.gt {as_fp(a)} {as_fp(b)})", f"(fp.geq {as_fp(a)} {as_fp(b)})", f"(fp.eq {as_fp(a)} {as_fp(b)})"
            base = f"rel_{SHORT[ka]}_{SHORT[kb]}"
            meta = {"function": f1.name + " / " + f2.name, "op": "rel", "kinds": [ka, kb], "profile": profile}
            for i, o in enumerate(po):
                if o.kind == "return" and isinstance(o.value, OptOrd):
                    gt = f"(and {o.value.some} (= {o.value.ord} {bvconst(1, 8)}))"      # PartialOrd::gt default method
                    ge = f"(and {o.value.some} (not (= {o.value.ord} {bvconst(-1, 8)})))"
                    qs.append(Query(f"c09:{base}:{profile}:gt{i}", decls_of(params), f"(and {o.cond()} (not (= {gt} {wgt})))",
                                    "> equals the numeric model", inputs_of(params), dict(meta, prop="C09", obligation="relational >")))
                    qs.append(Query(f"c09:{base}:{profile}:ge{i}", decls_of(params), f"(and {o.cond()} (not (= {ge} {wge})))",
                                    ">= equals the numeric model", inputs_of(params), dict(meta, prop="C09", obligation="relational >=")))
                else:
                    qs.append(Query(f"unsup:{base}:{profile}:cmp{i}", decls_of(params), o.cond(), "untranslated / panicking path is unreachable: " + str(o.value),
                                    inputs_of(params), dict(meta, prop="C09", obligation="unsupported-path-unreachable", reason=str(o.value))))
            for i, o in enumerate(eo):
                if o.kind == "return" and isinstance(o.value, Sc):
                    qs.append(Query(f"c09:{base}:{profile}:eq{i}", decls_of(params), f"(and {o.cond()} (not (= {o.value.term} {weq})))",
                                    "== equals the numeric model", inputs_of(params), dict(meta, prop="C09", obligation="equality")))
                else:
                    qs.append(Query(f"unsup:{base}:{profile}:eq{i}", decls_of(params), o.cond(), "untranslated / panicking path is unreachable: " + str(o.value),
                                    inputs_of(params), dict(meta, prop="C09", obligation="unsupported-path-unreachable", reason=str(o.value))))
    # ---- the zero-divisor test itself (C08: not too weak; C09: not too strong)
    ztable = {"Integer": f"(= p1_Integer {bvconst(0, 64)})", "Float": "(fp.isZero p1_Float)", "Byte": f"(= p1_Byte {bvconst(0, 8)})"}
    for k, want in ztable.items():
        try:
            f, params, outs = run_fn("is_zero", [k])
        except Exception as e:
            notes.append(f"is_zero {k}: {e}")
            continue
        for prop_ in ("C08", "C09"):
            meta = {"function": f.name, "op": "is_zero", "kinds": [k], "profile": profile}
            for i, o in enumerate(outs):
                if o.kind == "return" and isinstance(o.value, Sc):
                    qs.append(Query(f"{prop_.lower()}:is_zero_{SHORT[k]}:{profile}:{i}", decls_of(params), f"(and {o.cond()} (not (= {o.value.term} {want})))",
                                    "is_zero holds exactly for the numeric zeros", inputs_of(params), dict(meta, prop=prop_, obligation="zero-test")))
                elif prop_ == "C09":
                    qs.append(Query(f"unsup:is_zero_{SHORT[k]}:{profile}:{i}", decls_of(params), o.cond(), "untranslated / panicking path is unreachable: " + str(o.value),
                                    inputs_of(params), dict(meta, prop="C09", obligation="unsupported-path-unreachable", reason=str(o.value))))
    # ---- truthiness, scalar kinds (C06)
    table = {"Bool": "(not p1_Bool)", "Integer": f"(= p1_Integer {bvconst(0, 64)})", "Float": "(fp.isZero p1_Float)",
             "Char": f"(= p1_Char {bvconst(0, 32)})", "Byte": f"(= p1_Byte {bvconst(0, 8)})", "Null": "true"}
    for k, want in table.items():
        try:
            f, params, outs = run_fn("is_falsey", [k])
        except Exception as e:
            notes.append(f"is_falsey {k}: {e}")
            continue
        meta = {"function": f.name, "op": "is_falsey", "kinds": [k], "profile": profile}
        for i, o in enumerate(outs):
            if o.kind == "return" and isinstance(o.value, Sc):
                qs.append(Query(f"c06:falsey_{SHORT[k]}:{profile}:{i}", decls_of(params), f"(and {o.cond()} (not (= {o.value.term} {want})))",
                                "is_falsey equals the documented table", inputs_of(params), dict(meta, prop="C06", obligation="truthiness")))
            else:
                qs.append(Query(f"unsup:falsey_{SHORT[k]}:{profile}:{i}", decls_of(params), o.cond(), "untranslated / panicking path is unreachable: " + str(o.value),
                                inputs_of(params), dict(meta, prop="C06", obligation="unsupported-path-unreachable", reason=str(o.value))))
    return qs, notes


# ------------------------------------------------------------------------------------------------
SOLVERS = {
    "z3": ["/usr/bin/z3", "-in", "-T:120"],
    "cvc5": ["cvc5", "--lang", "smt2", "--incremental", "--tlimit-per", "120000"],
}


def script_for(queries, with_models=False):
    lines = ["(set-logic ALL)"]
    if with_models:
        lines.insert(0, "(set-option :produce-models true)")
    for q in queries:
        lines.append("(push 1)")
        lines.append(f"(echo \"Q {q.name}\")")
        lines += q.decls
        lines.append(f"(assert {q.assertion})")
        lines.append("(check-sat)")
        if with_models and q.inputs:
            lines.append("(get-value (" + " ".join(n for n, _ in q.inputs) + "))")
        lines.append("(pop 1)")
    return "\n".join(lines) + "\n"


def run_solver(name, script):
    t0 = time.time()
    try:
        p = subprocess.run(SOLVERS[name], input=script, stdout=subprocess.PIPE, stderr=subprocess.STDOUT, text=True, timeout=3600)
        out = p.stdout
    except subprocess.TimeoutExpired:
        out = "(error \"solver process timeout\")"
    return out, time.time() - t0


def parse_answers(out):
    """-> dict name -> (verdict, following text)"""
    res = {}
    cur = None
    buf = []
    for ln in out.split("\n"):
        s = ln.strip().strip('"')
        if s.startswith("Q "):
            if cur:
                res[cur] = buf
            cur = s[2:].strip()
            buf = []
        elif cur:
            buf.append(ln)
    if cur:
        res[cur] = buf
    final = {}
    for k, b in res.items():
        text = "\n".join(b)
        v = "error"
        for ln in b:
            t = ln.strip()
            if t in ("sat", "unsat", "unknown"):
                v = t
                break
        if "(error" in text and v != "sat":
            v = "error"
        final[k] = (v, text)
    return final


def discharge(queries):
    """Run every query through both solvers. Sets q.verdict = {'z3':..,'cvc5':..}; returns solver times."""
    times = {}
    script = script_for(queries)
    for s in SOLVERS:
        out, dt = run_solver(s, script)
        times[s] = round(dt, 2)
        ans = parse_answers(out)
        for q in queries:
            q.verdict[s] = ans.get(q.name, ("error", ""))[0]
    # models for the sat ones (z3)
    satq = [q for q in queries if "sat" in q.verdict.values()]
    if satq:
        out, _ = run_solver("z3", script_for(satq, with_models=True))
        ans = parse_answers(out)
        for q in satq:
            v, text = ans.get(q.name, ("error", ""))
            if v == "sat":
                q.model = parse_model(text, q.inputs)
    return times


def parse_model(text, inputs):
    vals = {}
    for (n, kind) in inputs:
        m = re.search(r"\(" + re.escape(n) + r"\s+(#x[0-9a-fA-F]+|#b[01]+|true|false|\(_ bv(\d+) \d+\))\)", text)
        if not m:
            continue
        t = m.group(1)
        if t.startswith("#x"):
            v = int(t[2:], 16)
        elif t.startswith("#b"):
            v = int(t[2:], 2)
        elif t in ("true", "false"):
            v = 1 if t == "true" else 0
        else:
            v = int(m.group(2))
        vals[n] = (kind, v)
    return vals


def operand_token(kind, v):
    if kind == "Integer":
        return f"I:{v - (1 << 64) if v >= (1 << 63) else v}"
    if kind == "Float":
        return f"F:{v}"
    if kind == "Byte":
        return f"B:{v}"
    if kind == "Char":
        return f"C:{v}"
    if kind == "Bool":
        return f"b:{v}"
    return "N"


def native_eval(items, profile, log=None):
    """Evaluate the real functions natively (harness crate test `opeval`). -> dict item -> result text"""
    env = dict(os.environ)
    env["CARGO_NET_OFFLINE"] = "true"
    env["RUSTFLAGS"] = "--cfg p2sh_verif"
    env.pop("VERIF_OPEVAL", None)
    os.makedirs(BUILD, exist_ok=True)
    fpath = os.path.join(BUILD, f"opeval.{os.getpid()}.{profile}.txt")
    open(fpath, "w").write("\n".join(items) + "\n")
    env["VERIF_OPEVAL_FILE"] = fpath
    env.pop("VERIF_REPLAY_HARNESS", None)
    cmd = ["cargo", "test", "--offline", "--target-dir", os.path.join(BUILD, "native")]
    if profile == "release":
        cmd.append("--release")
    cmd += ["verif::opeval", "--", "--exact", "--nocapture", "--test-threads", "1"]
    p = subprocess.run(cmd, cwd=os.path.join(VERIF, "kani"), env=env, stdout=subprocess.PIPE, stderr=subprocess.STDOUT, text=True, timeout=1800)
    if log:
        open(log, "a").write("$ native opeval [" + profile + "]\n" + p.stdout[-3000:] + "\n")
    res = {}
    for m in re.finditer(r"OPEVAL (.+?) => (.*)", p.stdout):
        res[m.group(1).strip()] = m.group(2).strip()
    return res


BOUNDARY = {
    "Integer": [0, 1, -1, 2, 63, 64, 65, -64, (1 << 63) - 1, -(1 << 63), (1 << 53) + 1, -(1 << 53) - 1, 255, 256, 1 << 32],
    "Float": [0.0, -0.0, 1.0, -1.0, 0.5, 2.0 ** 53, 1e300, -1e300, 5e-324, float("inf"), float("-inf"), float("nan"), 9.223372036854775807e18],
    "Byte": [0, 1, 2, 127, 128, 255],
}


def fbits(x):
    return struct.unpack("<Q", struct.pack("<d", x))[0]


def validation_vectors():
    items = []
    def tok(k, v):
        return operand_token(k, (v % (1 << 64)) if k == "Integer" else (fbits(v) if k == "Float" else v))
    for op in ("add", "sub", "mul", "div", "rem"):
        for ka in NUM:
            for kb in NUM:
                for x in BOUNDARY[ka][:9]:
                    for y in BOUNDARY[kb][:9]:
                        items.append(f"{op} {tok(ka, x)} {tok(kb, y)}")
    for op in ("bitand", "bitor", "bitxor", "shl", "shr", "eq", "gt", "ge"):
        for x in BOUNDARY["Integer"]:
            for y in BOUNDARY["Integer"][:10]:
                items.append(f"{op} {tok('Integer', x)} {tok('Integer', y)}")
    for op in ("eq", "gt", "ge"):
        for (ka, kb) in (("Integer", "Float"), ("Float", "Integer"), ("Float", "Float")):
            for x in BOUNDARY[ka]:
                for y in BOUNDARY[kb]:
                    items.append(f"{op} {tok(ka, x)} {tok(kb, y)}")
    for k in ("Integer", "Float"):
        for x in BOUNDARY[k]:
            items.append(f"neg {tok(k, x)}")
    for k in ("Integer", "Float", "Byte"):
        for x in BOUNDARY[k]:
            items.append(f"is_falsey {tok(k, x)}")
            items.append(f"is_zero {tok(k, x)}")
    return items


KIND_OF_TOKEN = {"I": "Integer", "F": "Float", "B": "Byte", "C": "Char", "b": "Bool", "N": "Null"}


def encoding_eval_queries(funcs, variants, profile, items):
    """For each vector: pin the inputs in the encoding and ask the solver for the outcome
    ((get-value) of the result / which panic path). -> smt script + bookkeeping"""
    lines = ["(set-option :produce-models true)", "(set-logic ALL)"]
    book = []
    for idx, item in enumerate(items):
        parts = item.split()
        fn = parts[0]
        toks = parts[1:]
        kinds = [KIND_OF_TOKEN[t.split(":")[0]] for t in toks]
        method = {"gt": "partial_cmp", "ge": "partial_cmp"}.get(fn, fn)
        try:
            f = obj_fn(funcs, method)
            params = [Param(i + 1, k) for i, k in enumerate(kinds)]
            outs = symex.Exec(f, params, variants, funcs).run()
        except Exception as e:
            book.append((item, None, "untranslatable: " + str(e)))
            continue
        pins = []
        for i, t in enumerate(toks):
            k, v = t.split(":") if ":" in t else (t, "0")
            kind = KIND_OF_TOKEN[k]
            if kind == "Integer":
                pins.append(f"(= p{i+1}_Integer {bvconst(int(v), 64)})")
            elif kind == "Float":
                pins.append(f"(= p{i+1}_Float_bits {bvconst(int(v), 64)})")
            elif kind == "Byte":
                pins.append(f"(= p{i+1}_Byte {bvconst(int(v), 8)})")
            elif kind == "Char":
                pins.append(f"(= p{i+1}_Char {bvconst(int(v), 32)})")
            elif kind == "Bool":
                pins.append(f"(= p{i+1}_Bool {'true' if v == '1' else 'false'})")
        decls = []
        for p in params:
            decls += p.decl()
        lines.append("(push 1)")
        lines += decls
        for pn in pins:
            lines.append(f"(assert {pn})")
        # one selector per outcome; result expressed as 64 bits
        sel = []
        for oi, o in enumerate(outs):
            if o.kind == "return":
                v = o.value
                if isinstance(v, ObjVal) and isinstance(v.payload, Sc):
                    pay = v.payload
                    if pay.kind == "fp":
                        # get-value on an FP term prints (fp ..) : compare through a fresh bit-vector
                        lines.append(f"(declare-const r{oi}_bits (_ BitVec 64))")
                        lines.append(f"(assert (=> {o.cond()} (= ((_ to_fp 11 53) r{oi}_bits) {pay.term})))")
                        sel.append((oi, "ret", v.variant, f"r{oi}_bits"))
                    else:
                        lines.append(f"(define-fun r{oi} () (_ BitVec {pay.w}) {pay.term})")
                        sel.append((oi, "ret", v.variant, f"r{oi}"))
                elif isinstance(v, Sc) and v.kind == "bool":
                    lines.append(f"(define-fun r{oi} () Bool {v.term})")
                    sel.append((oi, "ret", "Bool", f"r{oi}"))
                elif isinstance(v, OptOrd):
                    gt = f"(and {v.some} (= {v.ord} {bvconst(1, 8)}))"
                    ge = f"(and {v.some} (not (= {v.ord} {bvconst(-1, 8)})))"
                    lines.append(f"(define-fun r{oi} () Bool {gt if fn == 'gt' else ge})")
                    sel.append((oi, "ret", "Bool", f"r{oi}"))
                else:
                    sel.append((oi, "unsup", str(v), None))
            else:
                sel.append((oi, o.kind, str(o.value), None))
            lines.append(f"(define-fun c{oi} () Bool {o.cond()})")
        lines.append(f"(echo \"V {idx}\")")
        lines.append("(check-sat)")
        names = [f"c{oi}" for oi, *_ in sel] + [n for (_, k, _, n) in sel if n]
        lines.append("(get-value (" + " ".join(names) + "))")
        lines.append("(pop 1)")
        book.append((item, sel, None))
    return "\n".join(lines) + "\n", book


def parse_eval(out, book):
    """-> dict item -> predicted result text in the native format"""
    chunks = {}
    cur = None
    for ln in out.split("\n"):
        s = ln.strip().strip('"')
        m = re.fullmatch(r"V (\d+)", s)
        if m:
            cur = int(m.group(1))
            chunks[cur] = []
        elif cur is not None:
            chunks[cur].append(ln)
    pred = {}
    ci = 0
    for idx, (item, sel, err) in enumerate(book):
        if sel is None:
            pred[item] = "UNTRANSLATED " + (err or "")
            continue
        text = "\n".join(chunks.get(idx, []))
        if "(error" in text or "sat" not in text:
            pred[item] = "SOLVER-ERROR"
            continue
        def val(name):
            m = re.search(r"\(" + re.escape(name) + r"\s+(#x[0-9a-fA-F]+|#b[01]+|true|false)\)", text)
            if not m:
                return None
            t = m.group(1)
            if t.startswith("#x"):
                return int(t[2:], 16), 4 * (len(t) - 2)
            if t.startswith("#b"):
                return int(t[2:], 2), len(t) - 2
            return (1 if t == "true" else 0), 1
        active = [s for s in sel if (val(f"c{s[0]}") or (0, 0))[0] == 1]
        if len(active) != 1:
            pred[item] = f"ENCODING-NOT-DETERMINISTIC ({len(active)} active paths)"
            continue
        oi, kind, info, name = active[0]
        if kind == "panic":
            pred[item] = "PANIC"
        elif kind != "ret":
            pred[item] = "UNSUPPORTED " + info
        else:
            v, w = val(name)
            if info == "Integer":
                pred[item] = f"I:{v - (1 << 64) if v >= (1 << 63) else v}"
            elif info == "Float":
                pred[item] = f"F:{v}"
            elif info == "Byte":
                pred[item] = f"B:{v}"
            elif info == "Bool":
                pred[item] = f"b:{v}"
            else:
                pred[item] = f"?:{v}"
    return pred


def same_result(native, predicted):
    if native.startswith("PANIC") and predicted.startswith("PANIC"):
        return True
    if native.startswith("F:") and predicted.startswith("F:"):
        a, b = int(native[2:]), int(predicted[2:])
        isnan = lambda x: (x & 0x7FF0000000000000) == 0x7FF0000000000000 and (x & 0x000FFFFFFFFFFFFF) != 0
        return a == b or (isnan(a) and isnan(b))
    return native == predicted


def run(prop_filter, log=None, validate=True):
    """Full engine-M pass. -> dict with queries, verdicts, validation, notes."""
    t0 = time.time()
    variants = mir.enum_variants(open(REPO + "/src/object/mod.rs").read(), "Object")
    res = {"profiles": {}, "queries": [], "notes": [], "validation": {}, "solver_time_s": {}, "inconclusive": [], "violations": []}
    for profile in ("release", "dev"):
        text = dump_mir(profile, log)
        funcs = mir.parse(text)      # all bodies: crate-local helpers are executed in place
        qs, notes = build_queries(funcs, variants, profile)
        qs = [q for q in qs if q.meta["prop"] in prop_filter or q.name.startswith("unsup:")]
        res["notes"] += [f"[{profile}] {n}" for n in notes]
        times = discharge(qs)
        res["solver_time_s"][profile] = times
        res["profiles"][profile] = {"functions": sorted({q.meta["function"] for q in qs}), "queries": len(qs)}
        if validate:
            items = validation_vectors()
            script, book = encoding_eval_queries(funcs, variants, profile, items)
            out, dt = run_solver("z3", script)
            pred = parse_eval(out, book)
            nat = native_eval(items, profile, log)
            bad = []
            for it in items:
                n, p = nat.get(it), pred.get(it, "MISSING")
                if n is None:
                    bad.append((it, "native result missing", p))
                elif p.startswith("UNSUPPORTED") and "float Rem" in p:
                    continue       # float % is outside engine M by design
                elif not same_result(n, p):
                    bad.append((it, n, p))
            res["validation"][profile] = {"vectors": len(items), "disagreements": bad[:20], "n_disagreements": len(bad),
                                          "solver_s": round(dt, 2)}
        for q in qs:
            vz, vc = q.verdict.get("z3"), q.verdict.get("cvc5")
            rec = {"name": q.name, "meaning": q.meaning, "z3": vz, "cvc5": vc, **q.meta}
            if vz == "unsat" and vc == "unsat":
                rec["status"] = "discharged"
            elif vz == "sat" and vc == "sat":
                rec["status"] = "counterexample"
                rec["model"] = {k: operand_token(kind, v) for k, (kind, v) in (q.model or {}).items()}
            else:
                rec["status"] = "inconclusive"
            res["queries"].append(rec)
    res["wall_s"] = round(time.time() - t0, 1)
    return res


# ------------------------------------------------------------------------------------------------
# Python reference (used only to judge whether a solver counterexample reproduces on the real
# build: native result vs. what the language defines)

def _tok_val(t):
    k, v = t.split(":") if ":" in t else (t, "0")
    v = int(v)
    if k == "F":
        return "F", struct.unpack("<d", struct.pack("<Q", v))[0]
    return k, v


def _wrap64(x):
    x &= (1 << 64) - 1
    return x - (1 << 64) if x >= (1 << 63) else x


def py_ref(item):
    """Expected native output for an opeval item per C06/C09, or None when not modelled."""
    import math
    parts = item.split()
    fn = parts[0]
    ops = [_tok_val(t) for t in parts[1:]]
    (ka, a) = ops[0]
    (kb, b) = ops[1] if len(ops) > 1 else ("N", 0)
    def tdiv(x, y):
        q = abs(x) // abs(y)
        return q if (x < 0) == (y < 0) else -q
    def fl(k, v):
        return float(v)
    if fn in ("add", "sub", "mul", "div", "rem"):
        if ka == "F" or kb == "F":
            x, y = fl(ka, a), fl(kb, b)
            try:
                if fn == "add": r = x + y
                elif fn == "sub": r = x - y
                elif fn == "mul": r = x * y
                elif fn == "div":
                    if y == 0.0:
                        return None
                    r = x / y
                else:
                    return None
            except OverflowError:
                return None
            return "F:%d" % fbits(r)
        if (fn in ("div", "rem")) and b == 0:
            return "ERROR"
        if ka == "B" and kb == "B":
            r = {"add": a + b, "sub": a - b, "mul": a * b, "div": a // b if b else 0, "rem": a % b if b else 0}[fn]
            return "B:%d" % (r & 0xFF)
        if fn == "div":
            r = tdiv(a, b)
        elif fn == "rem":
            r = a - tdiv(a, b) * b
        else:
            r = {"add": a + b, "sub": a - b, "mul": a * b}[fn]
        return "I:%d" % _wrap64(r)
    if fn in ("bitand", "bitor", "bitxor", "shl", "shr") and ka == "I" and kb == "I":
        amt = b & 63
        r = {"bitand": a & b, "bitor": a | b, "bitxor": a ^ b, "shl": a << amt, "shr": a >> amt}[fn]
        return "I:%d" % _wrap64(r)
    if fn == "neg":
        return "I:%d" % _wrap64(-a) if ka == "I" else "F:%d" % fbits(-a)
    if fn in ("eq", "gt", "ge") and ka in ("I", "F") and kb in ("I", "F"):
        if ka == "I" and kb == "I":
            x, y = a, b
        else:
            x, y = fl(ka, a), fl(kb, b)
        r = {"eq": x == y, "gt": x > y, "ge": x >= y}[fn]
        return "b:%d" % int(r)
    if fn == "is_zero":
        if ka in ("I", "B"):
            return "b:%d" % int(a == 0)
        if ka == "F":
            return "b:%d" % int(a == 0.0)
        return "b:0"
    if fn == "is_falsey":
        if ka in ("I", "B", "C"):
            return "b:%d" % int(a == 0)
        if ka == "F":
            return "b:%d" % int(a == 0.0)
        if ka == "b":
            return "b:%d" % int(a == 0)
        if ka == "N":
            return "b:1"
    return None


def item_of(rec):
    """opeval item for a counterexample record (model of the SMT query)."""
    fn = rec["op"]
    if fn == "rel":
        fn = {"relational >": "gt", "relational >=": "ge", "equality": "eq"}.get(rec["obligation"], "eq")
    toks = []
    for i, k in enumerate(rec["kinds"]):
        key = f"p{i+1}_{k}_bits" if k == "Float" else f"p{i+1}_{k}"
        toks.append(rec.get("model", {}).get(key) or {"Integer": "I:0", "Float": "F:0", "Byte": "B:0", "Char": "C:0", "Bool": "b:0", "Null": "N"}[k])
    return fn + " " + " ".join(toks)


def confirm(recs, log=None):
    """Replay SMT counterexamples natively in the profile they were found for."""
    by_prof = {}
    for r in recs:
        r["item"] = item_of(r)
        by_prof.setdefault(r["profile"], []).append(r)
    for prof, rs in by_prof.items():
        nat = native_eval([r["item"] for r in rs], prof, log)
        for r in rs:
            n = nat.get(r["item"])
            want = py_ref(r["item"])
            r["native"] = n
            r["language_model"] = want
            if n is None:
                r["reproduced"] = False
            elif r["obligation"] == "no-panic":
                r["reproduced"] = n.startswith("PANIC")
            else:
                r["reproduced"] = (want is not None) and not same_result(n, want) and want != "ERROR"
    return recs
